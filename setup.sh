#!/bin/bash
# Offline setup: make sure the interpreter used by the checks can import the
# repository and hypothesis; install hypothesis from the local wheelhouse into
# /verif/.deps when /venv lacks it.
HERE="$(cd "$(dirname "${BASH_SOURCE[0]}")" && pwd)"
cd "$HERE" || exit 1
PY=/venv/bin/python
mkdir -p evidence .deps
export PYTHONPATH="/repo:$HERE:$HERE/.deps"
if ! "$PY" -c "import hypothesis" 2>/dev/null; then
  "$PY" -m pip install --no-index --find-links /opt/veriftools/wheels --target "$HERE/.deps" hypothesis || exit 1
fi
# optional: coverage-guided fuzzing for the thorough tier of C15 (skipped with a note when unavailable)
if ! "$PY" -c "import atheris" 2>/dev/null; then
  "$PY" -m pip install --no-index --find-links /opt/veriftools/wheels --target "$HERE/.deps" atheris >/dev/null 2>&1 || echo "note: atheris not installed (C15 thorough runs without the coverage-guided extra)"
fi
"$PY" -c "import coco, coco.b09.compiler, hypothesis, parsimonious, png, PIL; print('setup ok: coco at', coco.__file__, 'hypothesis', hypothesis.__version__)" || exit 1
