#!/usr/bin/env python3
"""Regenerate the seeded-change table of DESIGN.md from seeded/*/meta.json (developer tool)."""
import glob, json, os, re
HERE = os.path.dirname(os.path.abspath(__file__))
rows = []
n = caught0 = caught1 = notc = missed = 0
for d in sorted(glob.glob(os.path.join(HERE, "seeded", "C*-*"))):
    m = json.load(open(os.path.join(d, "meta.json")))
    v = m.get("verif", {})
    name = os.path.basename(d)
    summ = re.sub(r"\s+", " ", (m.get("summary") or ""))[:150].replace("|", "/")
    n += 1
    if v.get("kept") is False:
        res = "not counted: the property still holds (see below)"; notc += 1
    elif v.get("not_caught"):
        res = "NOT CAUGHT: masked by an open finding (see below)"; missed += 1
    else:
        res = "caught by " + ", ".join(v.get("caught_by", []))
        if v.get("initially_missed"):
            res += " - after strengthening"; caught1 += 1
        else:
            caught0 += 1
    rows.append("| %s | %s | %s |" % (name, summ, res))
table = "| seed | change | result |\n|---|---|---|\n" + "\n".join(rows) + "\n\nTotals: %d changes; %d caught at once, %d caught after a generator was widened, %d not caught, %d not counted.\n" % (n, caught0, caught1, missed, notc)
p = os.path.join(HERE, "DESIGN.md")
s = open(p).read()
a = s.index("<!-- SEEDED-TABLE-BEGIN -->") + len("<!-- SEEDED-TABLE-BEGIN -->\n")
b = s.index("<!-- SEEDED-TABLE-END -->")
open(p, "w").write(s[:a] + table + s[b:])
print(n, caught0, caught1, missed, notc)
