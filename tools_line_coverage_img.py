#!/usr/bin/env python3
"""developer tool: which lines of the image decoders do the quick tiers of C16-C19 execute?  (in-process, first shards only)
usage: PYTHONPATH=/repo:/verif:/verif/.deps /venv/bin/python tools_line_coverage_img.py"""
import sys, os, glob, importlib
import coverage

cov = coverage.Coverage(include=["/repo/coco/*.py"], data_file=None)
cov.start()
for name in ("c16", "c17", "c18", "c19"):
    mod = importlib.import_module("vf.props." + name)
    for fn, kws in mod.plan("quick", 1, frozenset()):
        for kw in kws:
            try:
                getattr(mod, fn)(**kw)
            except Exception as e:
                print("shard failed", name, fn, type(e).__name__, e, file=sys.stderr)
    print("drove", name, file=sys.stderr)
cov.stop()
for f in sorted(glob.glob("/repo/coco/*.py")):
    try:
        _, stmts, _, missing, _ = cov.analysis2(f)
    except Exception:
        continue
    if not stmts:
        continue
    print("%-28s %4d statements, %4d never executed" % (os.path.basename(f), len(stmts), len(missing)))
    src = open(f).read().split("\n")
    for ln in missing:
        print("     %5d  %s" % (ln, src[ln - 1][:110]))
