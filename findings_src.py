# -*- python -*-
# Source of known_findings.json (developer tool: python3 tools_findings.py regenerates the JSON).
# The JSON file is what the checks read; it is committed and never written at run time.

FINDINGS = [
 {
  "id": "C12-implicit-array-order",
  "property": [
   "C12"
  ],
  "status": "fixed",
  "commit": "7da9fb5",
  "what": "DIM lines of implicitly declared arrays were emitted in set iteration order (output depended on PYTHONHASHSEED)",
  "witnesses": {
   "C12": [
    {
     "kind": "hashseed",
     "source": "10 A(1)=1:B(1)=2:C$(1)=\"\":D(1)=2",
     "options": {},
     "hash_seeds": [
      0,
      1,
      2,
      3
     ]
    }
   ]
  }
 },
 {
  "id": "C17-rat-low-nibble-mask",
  "property": [
   "C17"
  ],
  "status": "open",
  "pinned_by": "tests/coco_tests/test_rattoppm.py (stored watrfall.ppm was produced with the mask)",
  "what": "rattoppm masks the right-hand pixel of every byte with 7 (dump(c & 7)): colours 8-15 in odd columns decode as colours 0-7",
  "switch": "rat_low_nibble_le7",
  "witnesses": {
   "C17": [
    {
     "spec": {
      "fmt": "rat",
      "seed": 5,
      "pattern": "random",
      "escape": 27,
      "policy": "mixed",
      "palette": [
       0,
       1,
       2,
       3,
       4,
       5,
       6,
       7,
       8,
       9,
       10,
       11,
       12,
       13,
       14,
       15
      ]
     }
    }
   ]
  }
 },
 {
  "id": "C18-hrs-odd-width",
  "property": [
   "C18"
  ],
  "status": "open",
  "what": "hrstoppm with an odd -w announces the requested width but writes width//2*2 samples per row (-w 1: header and no samples)",
  "switch": "hrs_even_width",
  "witnesses": {
   "C18": [
    {
     "variant": "file",
     "spec": {
      "fmt": "hrs",
      "seed": 1,
      "pattern": "random",
      "w": 5,
      "h": 3
     }
    },
    {
     "variant": "file",
     "spec": {
      "fmt": "hrs",
      "seed": 1,
      "pattern": "random",
      "w": 1,
      "h": 2
     }
    }
   ]
  }
 },
 {
  "id": "C18-max-width-not-multiple-of-8",
  "property": [
   "C18"
  ],
  "status": "open",
  "what": "maxtoppm with -w not divisible by 8 announces the requested width but writes (width>>3)*8 samples per row",
  "switch": "max_width_mult8",
  "witnesses": {
   "C18": [
    {
     "variant": "file",
     "spec": {
      "fmt": "max",
      "seed": 1,
      "pattern": "random",
      "mode": "bw",
      "cols": 100,
      "rows_opt": 2
     }
    }
   ]
  }
 },
 {
  "id": "C19-max-short-body",
  "property": [
   "C19"
  ],
  "status": "open",
  "what": "maxtoppm reads rows in bulk and reports success for a body shorter than its header announces (short payload after a full-size header)",
  "witnesses": {
   "C19": [
    {
     "fmt": "max",
     "base": {
      "fmt": "max",
      "seed": 1,
      "pattern": "random",
      "cols": 16,
      "rows": 4
     },
     "fault": {
      "kind": "prefix",
      "pos": 9
     }
    }
   ]
  }
 },
 {
  "id": "C19-pix-size-not-square",
  "property": [
   "C19"
  ],
  "status": "open",
  "what": "pixtopgm writes 2*size samples after announcing floor(sqrt(2*size))^2 for every file size that is not 2*k*k",
  "witnesses": {
   "C19": [
    {
     "fmt": "pix",
     "base": {
      "fmt": "pix",
      "seed": 1,
      "pattern": "random",
      "side": 8
     },
     "fault": {
      "kind": "prefix",
      "pos": 20
     }
    }
   ]
  }
 },
 {
  "id": "C19-vef-pixel-count-unchecked",
  "property": [
   "C19"
  ],
  "status": "open",
  "what": "veftopng never checks that the (expanded) pixel data has width*height entries: a body of the wrong length yields a PNG whose IDAT does not match its header, reported as success",
  "witnesses": {
   "C19": [
    {
     "fmt": "vef",
     "base": {
      "fmt": "vef",
      "seed": 3,
      "pattern": "random",
      "squashed": False,
      "type": 3
     },
     "fault": {
      "kind": "prefix",
      "pos": 9000
     }
    }
   ]
  }
 },
 {
  "id": "C19-vef-palette-byte-ge-64",
  "property": [
   "C19"
  ],
  "status": "open",
  "what": "veftopng copies palette bytes >= 64 into the bitmap as indices outside its 64-entry palette",
  "witnesses": {
   "C19": [
    {
     "fmt": "vef",
     "base": {
      "fmt": "vef",
      "seed": 3,
      "pattern": "random",
      "squashed": False,
      "type": 3
     },
     "fault": {
      "kind": "corrupt",
      "pos": 2,
      "val": 200
     }
    }
   ]
  }
 },
 {
  "id": "C19-mge-rle-count-unchecked",
  "property": [
   "C19"
  ],
  "status": "open",
  "what": "mgetoppm accepts run-length data whose counts do not add up to 32000 (early terminator: fewer samples; pairs after the image is full: one extra byte each)",
  "witnesses": {
   "C19": [
    {
     "fmt": "mge",
     "base": {
      "fmt": "mge",
      "seed": 1,
      "pattern": "constant",
      "compressed": True,
      "policy": "max",
      "composite": False
     },
     "fault": {
      "kind": "corrupt",
      "pos": 53,
      "val": 0
     }
    }
   ]
  }
 },
 {
  "id": "C19-rat-run-overshoot",
  "property": [
   "C19"
  ],
  "status": "open",
  "what": "rattoppm writes a whole run even when it exceeds the remaining image, so more samples than announced are written",
  "witnesses": {
   "C19": [
    {
     "fmt": "rat",
     "base": {
      "fmt": "rat",
      "seed": 1,
      "pattern": "constant",
      "policy": "max",
      "low_nibble_limit": 8
     },
     "fault": {
      "kind": "corrupt",
      "pos": 392,
      "val": 255
     }
    }
   ]
  }
 },
 {
  "id": "C19-cm3-line-count-unchecked",
  "property": [
   "C19"
  ],
  "status": "open",
  "what": "cm3toppm trusts the per-page line-count byte: a value other than 192 writes more or fewer rows than the header announces",
  "witnesses": {
   "C19": [
    {
     "fmt": "cm3",
     "base": {
      "fmt": "cm3",
      "seed": 1,
      "pattern": "constant",
      "coded": True,
      "p_raw": 0.0,
      "no_patterns": True
     },
     "fault": {
      "kind": "corrupt",
      "pos": 29,
      "val": 100
     }
    }
   ]
  }
 }
]

FIXED_LOG = [
 "fixed: property=C12 7da9fb5 implicit-array DIM lines emitted in set order, differing between PYTHONHASHSEED values (10 A(1)=1:B(1)=2:C$(1)=\"\":D(1)=2)",
 "fixed: property=C05 aaa111e convertible functions nested in built-in function arguments were lost (10 A=ABS(INT(B)) gave 'A := ABS')",
 "fixed: property=C08 33a0196 '& H FF' raised VisitationError(ValueError) while '&HFF' converted",
 "fixed: property=C02 dcd1581 bare NEXT after an explicit NEXT of an inner loop was given the inner loop's variable",
 "fixed: property=C07 346ca10 HCIRCLE with omitted colour printed a hoisted call inside the argument list (10 HCIRCLE(1,2),3,,INT(A))",
 "fixed: property=C13 e1a8e18 a comment with an odd number of quotes left all STRING<<>> placeholders of the bundle unreplaced (10 HDRAW\"\":REM \")",
 "fixed: property=C08 ee8d520 with CR or CRLF line ends a REM swallowed all following lines, and unquoted DATA items / open string literals ran across line ends (10 REM HELLO\r20 CLS)",
 "fixed: property=C08 a19f5d7 a trailing NUL after a final REM / unquoted DATA item / open string literal was copied into the output (10 REM HELLO\x00)",
 "fixed: property=C05 3a8d956 the WIDTH operand was never visited ('10 WIDTH INT(A)' gave 'run _ecb_width(, display)')",
 "fixed: property=C04 ea49ec4 the optional operand of CLS / HSCREEN / HCLS was dropped when it started with a unary minus or NOT (10 CLS -A)",
 "fixed: property=C15 ebeb205 a hex DATA item in a program with an empty DATA item raised AttributeError (10 READ A / 20 DATA ,&HFF)",
 "fixed: property=C15 4836963 procedure names with '-' (and names that only match PROCNAME_REGEX as a prefix) raised UnboundLocalError (procname='my-prog')",
 "fixed: property=C10 5dd1bab implicit string arrays never got the requested string size (10 A$(1)=\"X\" with default_str_storage=100)",
 "fixed: property=C20 7a287a6 ecb_instr never assigned its result (wrong substring length, loop one short, no 0 for no match)"
,
    "fixed: property=C05 d45f2c4 with an empty DATA item, a string function in the subscript of a numeric READ target was given the temporary that held the value just read (10 READ P(LEN(HEX$(255))) / 20 DATA 77, : the item was overwritten before ecb_read_filter used it)",
]
