# -*- python -*-  language-side findings; witnesses are ASTs (see vf/cb/render.py) built with the helpers below
def N(v):
    return ["num", str(v), v]
def V(n):
    return ["var", n]
def SV(n):
    return ["svar", n]
def LET(t, e):
    return ["let", t, e, False]
def PR(*es):
    items = []
    for i, e in enumerate(es):
        if i:
            items.append(["s", ";"])
        items.append(["e", e])
    return ["print", items]
def B(op, a, b):
    return ["bin", op, a, b]
def FN(name, *a):
    return ["fn", name, list(a)]
def IF(c, t, e=None):
    return ["if", c, ["stmts", t], (["stmts", e] if e is not None else None)]
def CMP(op, a, b):
    return ["cmp", op, a, b]
INIT = [10, [LET(V("A"), N(3)), LET(V("B"), N(5)), LET(V("C"), N(6)), LET(V("I"), N(2))]]
def P(*lines, **kw):
    d = {"prog": [list(l) for l in lines]}
    d.update(kw)
    return d

LANG_FINDINGS = []
def finding(fid, props, what, witnesses, switch=None, pinned_by=None, status="open", commit=None):
    f = {"id": fid, "property": props, "status": status, "what": what, "witnesses": witnesses}
    if switch: f["switch"] = switch
    if pinned_by: f["pinned_by"] = pinned_by
    if commit: f["commit"] = commit
    LANG_FINDINGS.append(f)

finding("C01-unary-operand-reach", ["C01"],
        "a unary minus or NOT takes the whole rest of the expression as its operand: '-B AND C' is emitted as '- LAND(B, C)', 'NOT B AND C' as 'LNOT(LAND(B, C))', 'IF NOT A=3 AND B=2' as 'NOT(A = 3.0 AND B = 2.0)', 'IF -B=-5' as 'IF - B = - 5.0 <> 0.0' "
        "(harmless where the rest is emitted as flat infix text that BASIC09 regroups by itself: '-B+C', 'A*-B+C', 'X=-B=C')",
        {"C01": [P(INIT, [30, [LET(V("X"), B("AND", ["neg", V("B")], V("C")))]], [40, [PR(V("X"))]]),
                 P(INIT, [30, [LET(V("X"), B("AND", ["not", V("B")], V("C")))]], [40, [PR(V("X"))]], source_override="10 A=3:B=5:C=6:I=2\n30 X=NOT B AND C\n40 PRINT X"),
                 P(INIT, [30, [IF(["band", ["bnot", CMP("=", V("A"), N(3))], CMP("=", V("B"), N(2))], [LET(V("X"), N(1))])]], [40, [PR(V("X"))]],
                   source_override="10 A=3:B=5:C=6:I=2\n30 IF NOT A=3 AND B=2 THEN X=1\n40 PRINT X"),
                 P(INIT, [30, [IF(CMP("=", ["neg", V("B")], ["neg", N(5)]), [LET(V("X"), N(1))])]], [40, [PR(V("X"))]],
                   source_override="10 A=3:B=5:C=6:I=2\n30 IF -B=-5 THEN X=1\n40 PRINT X")]},
        switch="paren_unary")
finding("C01-negated-power", ["C01"],
        "'-B^2' is emitted flat ('- B ^ 2.0'), which BASIC09 groups as (-B)^2 because its unary minus binds tighter than ^; '-2^2' is read as (-2)^2 by the tool itself (the literal pattern swallows the sign); Color BASIC gives -(B^2)",
        {"C01": [P(INIT, [30, [LET(V("X"), ["neg", B("^", V("B"), N(2))])]], [40, [PR(V("X"))]]),
                 P(INIT, [30, [LET(V("X"), ["neg", B("^", N(2), N(2))])]], [40, [PR(V("X"))]])]},
        switch="paren_unary")
finding("C01-fix-rounds", ["C01"],
        "Color BASIC FIX (truncate toward zero) is mapped to BASIC09 FIX, which rounds a REAL to the nearest INTEGER: FIX(2.7) becomes 3",
        {"C01": [P([10, [LET(V("B"), ["num", "2.7", 2.7])]], [30, [LET(V("X"), FN("FIX", V("B")))]], [40, [PR(V("X"))]])]},
        switch="no_fix")
finding("C01-ifelse-bare-numeric-condition", ["C01", "C02"],
        "IF <numeric> THEN .. ELSE .. is emitted as 'IF A THEN' without '<> 0.0' (the plain IF gets it), a REAL where BASIC09 needs a BOOLEAN",
        {"C01": [P(INIT, [30, [IF(["nz", V("A")], [LET(V("X"), N(1))], [LET(V("X"), N(2))])]], [40, [PR(V("X"))]])],
         "C02": [P(INIT, [30, [IF(["nz", V("A")], [LET(V("X"), N(1))], [LET(V("X"), N(2))])]], [40, [PR(V("X"))]])]},
        switch="ifelse_bare_numeric")
finding("C05-ifelse-condition-calls-dropped", ["C05", "C01", "C02"],
        "IF..ELSE and ELSE-IF arms never emit the procedure calls hoisted out of their conditions: 'IF INT(A)=3 THEN .. ELSE ..' tests tmp_1 without ever calling ecb_int, and all arms share tmp_1",
        {"C05": [P(INIT, [30, [IF(CMP("=", FN("INT", V("A")), N(3)), [LET(V("X"), N(1))], [LET(V("X"), N(2))])]], [40, [PR(V("X"))]])],
         "C01": [P(INIT, [30, [IF(CMP("=", FN("INT", V("A")), N(3)), [LET(V("X"), N(1))], [LET(V("X"), N(2))])]], [40, [PR(V("X"))]])],
         "C02": [P(INIT, [30, [IF(CMP("=", FN("INT", V("A")), N(3)), [LET(V("X"), N(1))], [LET(V("X"), N(2))])]], [40, [PR(V("X"))]])]},
        switch="no_convertible_in_ifelse_cond", pinned_by="tests/coco_tests/b09/test_b09.py::TestB09::test_int_lvalue")

finding("C02-elseif-chain-without-else-spins", ["C02"],
        "IF..THEN..ELSE IF..THEN.. without a final ELSE becomes LOOP/EXITIF../ENDLOOP with no unconditional exit: when no arm matches the translation loops for ever, Color BASIC falls through",
        {"C02": [P([10, [LET(V("A"), N(3)), LET(V("B"), N(0))]],
                   [20, [["if", CMP("=", V("A"), N(1)), ["stmts", [LET(V("B"), N(1))]], ["stmts", [IF(CMP("=", V("A"), N(2)), [LET(V("B"), N(2))])]]]]],
                   [30, [PR(V("B"))]])]},
        switch="elseif_needs_else", pinned_by="tests/coco_tests/b09/test_b09.py::TestB09::test_if_else_if")
finding("C02-statements-after-then-line-hoisted", ["C02"],
        "statements that follow 'THEN <line>' on the same line ('IF A=1 THEN 40:C=2') are emitted after the IF and run when the condition is false; Color BASIC skips to the next line",
        {"C02": [P([10, [LET(V("A"), N(3)), LET(V("C"), N(0))]],
                   [20, [["if", CMP("=", V("A"), N(1)), ["line", 40, [LET(V("C"), N(2))]], None]]],
                   [30, [PR(V("C"))]], [40, [PR(V("A"))]])]})
finding("C02-for-zero-trip", ["C02", "C01"],
        "a FOR whose start value is already past its limit runs its body once in Color BASIC and not at all in BASIC09 (FOR tests before the first iteration); the tool emits FOR unchanged",
        {"C02": [P([10, [LET(V("T"), N(0))]], [20, [["for", "I", N(1), N(0), None], LET(V("T"), B("+", V("T"), N(1))), ["next", []]]], [30, [PR(V("T"))]],
                   skip_zero_trip=False)],
         "C01": [P([10, [LET(V("T"), N(0))]], [20, [["for", "I", N(1), N(0), None], LET(V("T"), B("+", V("T"), N(1))), ["next", []]]], [30, [PR(V("T"))]],
                   skip_zero_trip=False)]})
finding("C02-bare-next-after-explicit-next", ["C02"],
        "a bare NEXT that followed an explicit 'NEXT J' of an inner loop was given the inner loop's variable",
        {"C02": [P([10, [LET(V("T"), N(0))]], [20, [["for", "I", N(1), N(2), None]]], [30, [["for", "J", N(1), N(2), None]]],
                   [40, [LET(V("T"), B("+", V("T"), N(1))), ["next", ["J"]]]], [50, [["next", []]]], [60, [PR(V("T"))]])]},
        status="fixed", commit="dcd1581")

def SRC(text, **kw):
    d = {"source": text, "options": {}}
    d.update(kw)
    return d

finding("C07-basic09-reserved-words-as-variables", ["C07"],
        "Color BASIC variables named DO, PI or SQ (or longer names truncated to them, e.g. PIN) are emitted unchanged although they are BASIC09 reserved words",
        {"C07": [SRC("10 PI=3"), SRC("10 DO=1:PRINT DO"), SRC("10 PIN=2")]},
        switch="no_b09_reserved_names")
finding("C05-width-read-input-operands-not-visited", ["C05", "C07"],
        "the operands of WIDTH and the subscripts of READ / INPUT targets are never visited: a function that must become a procedure call is lost there ('WIDTH INT(A)' gives 'run _ecb_width(, display)', 'READ A(INT(B))' gives 'READ arr_A')",
        {"C07": [SRC("10 WIDTH INT(A)")],
         "C05": [P([10, [LET(V("A"), N(40))]], [20, [["dev", "WIDTH", {"a": FN("INT", V("A"))}]]]),
                 P([10, [LET(V("B"), N(2))]], [20, [["read", [["arr", "Q", [FN("INT", V("B"))]]]]]], [30, [["data", [["n", "5", 5]]]]], [40, [PR(["arr", "Q", [N(2)]])]])]},
        switch="no_convertible_in_width_read_input")

finding("C07-hcircle-default-colour-statement", ["C07"],
        "HCIRCLE with an omitted colour and a convertible function in a later operand printed the hoisted call inside the argument list",
        {"C07": [SRC("10 HCIRCLE(1,2),3,,INT(A)"), SRC("10 HCIRCLE(1,2),3,,BUTTON(0),INT(C),1")]},
        status="fixed", commit="346ca10")

def C10CASE(source, vars_, **opts):
    o = {"default_str_storage": 32, "initialize_vars": False, "string_configs": {}}
    o.update(opts)
    return {"source": source, "vars": vars_, "options": o}
def VAR(name, kind, pos, dims=None, dimmed=False):
    return {"name": name, "kind": kind, "pos": pos, "dims": dims, "dimmed": dimmed}

finding("C10-implicit-multidimensional-arrays", ["C10", "C03"],
        "an array that is never DIMensioned but used with 2 or 3 subscripts is declared with one dimension: '10 A(1,2)=3' gives 'DIM arr_A(11)'",
        {"C10": [C10CASE("10 AA(1,2)=3", [VAR("AA", "arr", "top", [11, 11])])],
         "C03": [P([10, [LET(["arr", "Q", [N(1), N(2)]], N(3))]], [20, [PR(["arr", "Q", [N(1), N(2)]])]])]},
        switch="implicit_arrays_1d", pinned_by="tests/coco_tests/b09/test_b09.py::TestB09::test_parse_array_ref")
finding("C10-implicit-string-arrays-unsized", ["C10", "C03"],
        "an implicitly declared string array never gets a size: with default_str_storage=100, '10 A$(1)=\"X\"' gives 'DIM arr_A$(11)' (32-byte elements); longer strings are truncated",
        {"C10": [C10CASE('10 AA$(1)="X"', [VAR("AA", "sarr", "top", [11])], default_str_storage=100)],
         "C03": [dict(P([10, [LET(["sarr", "G", [N(1)]], ["str", "0123456789012345678901234567890123456789"])]], [20, [PR(["sarr", "G", [N(1)]])]]),
                      options={"default_str_storage": 80, "initialize_vars": True}, str_limit=80)]},
        switch="implicit_string_arrays_default_storage_only")
finding("C10-read-input-varptr-only-variables", ["C10", "C03"],
        "variables and array elements that occur only as READ / INPUT targets or only under VARPTR are never visited: strings get no size, arrays no DIM, and they are not pre-initialised",
        {"C10": [C10CASE("10 READ AA$\n20 DATA ITEM", [VAR("AA", "str", "read")], default_str_storage=40),
                 C10CASE("10 INPUT BQ(3)", [VAR("BQ", "arr", "input", [11])]),
                 C10CASE("10 ZN=VARPTR(CX$)", [VAR("CX", "str", "varptr")], default_str_storage=40)],
         "C03": [P([10, [["read", [["arr", "Q", [N(3)]]]], ["end"]]], [20, [["data", [["n", "7", 7]]]]]),
                 dict(P([10, [["input", None, [["svar", "ZQ"]], False], ["end"]]]), options={"default_str_storage": 80, "initialize_vars": True}, str_limit=80,
                      script={"INPUT$": ["0123456789012345678901234567890123456789"], "INPUT": []})]},
        switch="rw_targets_also_top_level",
        pinned_by="tests/coco_tests/b09/test_b09.py::TestB09::test_input, test_input_no_message, test_line_input, test_line_input_no_message, test_simple_read, test_varptr "
                  "(a 14-line repair that lets visitors see READ / INPUT targets and VARPTR operands was tried in a scratch worktree: these six golden tests then fail "
                  "because their expected text lacks the DIM lines of the arrays they read into)")
finding("C10-joystick-state-declared-twice", ["C10", "C14"],
        "the JOYSTK prologue declares joy0y twice ('dim joy0x, joy0y, joy1x, joy0y: integer') and never declares joy1y; ecb_joystk is called with 2 arguments although it declares 6 parameters",
        {"C10": [C10CASE("10 ZN=JOYSTK(0)", [])],
         "C14": [SRC("10 A=JOYSTK(0)")]},
        switch="no_joystk", pinned_by="tests/coco_tests/b09/test_b09.py::TestB09::test_joystk")

finding("C14-hprint-number-through-numeric-temporary", ["C14"],
        "HPRINT of a numeric item passes the numeric temporary tmp_1 as the string result of ecb_str and as the string parameter of ecb_hprint ('run ecb_str(A, tmp_1) \\ run ecb_hprint(1.0, 2.0, tmp_1, display)')",
        {"C14": [SRC("10 HPRINT(1,2),A")]},
        switch="hprint_string_only", pinned_by="tests/coco_tests/b09/test_b09.py::TestB09::test_hprint_num")

def C13CASE(source, procname="prog", size=32):
    return {"source": source, "procname": procname, "size": size}
finding("C13-odd-quote-comment-blocks-placeholders", ["C13"],
        "a comment or partial string with an odd number of quotes in the user's program left every STRING<<>> placeholder of the bundled library unreplaced",
        {"C13": [C13CASE('10 HDRAW"":REM procedure ecb_cls "'), C13CASE('10 PLAY"":REM "', size=80)]},
        status="fixed", commit="e1a8e18")
finding("C13-run-in-comment-taken-for-a-call", ["C13"],
        "'RUN name' inside a REM / ' comment of the user's program is taken for a call: unreachable library procedures are bundled",
        {"C13": [C13CASE("10 CLS:REM RUN ecb_hdraw")]},
        switch="no_run_in_comments")
finding("C13-program-named-like-a-library-procedure", ["C13"],
        "a program whose procedure name equals the name of a bundled library procedure replaces that procedure in the bundle (the library's own body is lost)",
        {"C13": [C13CASE("10 CLS", procname="_ecb_cursor_color")]},
        switch="procname_not_library_name")

finding("C08-cr-line-ends-not-respected-by-content-patterns", ["C08"],
        "with CR (or CRLF) line ends a REM swallowed every following line into the comment; unquoted DATA items and unterminated string literals ran across CR line ends",
        {"C08": [{"sources": ["10 REM HELLO\n20 CLS", "10 REM HELLO\r20 CLS"], "options": {}},
                 {"sources": ["10 DATA ABC\n20 CLS", "10 DATA ABC\r\n20 CLS"], "options": {}},
                 {"sources": ['10 A$="part\n20 CLS', '10 A$="part\r20 CLS'], "options": {}}]},
        status="fixed", commit="ee8d520")
finding("C08-hex-literal-inner-blanks", ["C08"],
        "'& H FF' / '&H FF' raised VisitationError(ValueError) while '&HFF' converted",
        {"C08": [{"sources": ["10 A=&HFF", "10 A=& H FF"], "options": {}}, {"sources": ["10 DIM B(&H1F)", "10 DIM B(&H 1F)"], "options": {}}]},
        status="fixed", commit="33a0196")
finding("C08-blank-only-line-rejected", ["C08"],
        "a line holding only blanks in the middle of a program is rejected while an empty line is accepted",
        {"C08": [{"sources": ["10 A=1\n\n20 B=2", "10 A=1\n \n20 B=2"], "options": {}}]},
        switch="blank_lines_truly_empty")
finding("C08-clear-comment-copies-source-layout", ["C08"],
        "CLEAR is turned into a comment that carries the statement's source text, so blanks between CLEAR and its operand change the output bytes ('CLEAR  200' gives '(* CLEAR  200 *)')",
        {"C08": [{"sources": ["10 CLEAR 200:CLS 0", "10 CLEAR  200:CLS 0"], "options": {}}]},
        switch="clear_canonical_layout")
finding("C08-trailing-nul-copied-into-content", ["C08"],
        "a trailing NUL after a final REM, unquoted DATA item or unterminated string literal became part of that text and was copied into the output",
        {"C08": [{"sources": ["10 REM HELLO", "10 REM HELLO\x00"], "options": {}}, {"sources": ["10 DATA ABC", "10 DATA ABC\x00"], "options": {}}]},
        status="fixed", commit="a19f5d7")

def C15(fid, what, buckets, witnesses, switch=None):
    finding(fid, ["C15"], what, {"C15": witnesses}, switch=switch)
    LANG_FINDINGS[-1]["buckets"] = buckets
C15("C15-malformed-numeric-literal-valueerror",
    "numeric-literal spellings the grammar accepts but float() does not ('.', '1E', '+-1', '--1') raise VisitationError(ValueError) from the parse visitor instead of a parse error",
    [["ValueError", "parser.py:visit_num_literal"]],
    [SRC("10 A=."), SRC("10 A=1E"), SRC("10 A=+-1"), SRC("10 DATA .")])
C15("C15-hex-data-item-with-empty-item",
    "a hex DATA item in a program that also has an empty DATA item raises AttributeError (HexLiteral.literal has no setter) when READ is patched for empty items",
    [["AttributeError", "visitors.py:visit_data_statement", "literal"]],
    [SRC("10 READ A\n20 DATA ,&HFF")], switch="no_hex_data_with_empty_item")
C15("C15-hcircle-trailing-comma",
    "'HCIRCLE(x,y),r,' (empty colour and nothing after it) raises AttributeError: 'Node' object has no attribute 'visit'",
    [["AttributeError", "elements.py:visit", "'Node' object has no attribute 'visit'"]],
    [SRC("10 HCIRCLE(A,B),C,")])
C15("C15-procedure-name-with-non-word-characters",
    "a procedure name the tool's own PROCNAME pattern admits but that contains '-' (or any text whose prefix matches, e.g. 'a b', 'a.b') raises UnboundLocalError in ProcedureBank.add_from_str; through the command line: input files such as my-prog.bas",
    [["UnboundLocalError", "procbank.py:add_from_str"]],
    [SRC("10 CLS", options={"output_dependencies": True, "procname": "my-prog"}),
     {"kind": "cli", "stem": "my-prog", "source": "10 CLS", "argv": []}], switch="procname_word_chars_only")
C15("C15-deep-nesting-recursionerror",
    "about 150 nested parentheses (300 bytes of input) exhaust Python's recursion limit inside the PEG parser: RecursionError instead of a refusal",
    [["RecursionError", "*"]],
    [SRC("10 A=" + "(" * 200 + "1" + ")" * 200)], switch="nesting_le_60")

finding("C20-ecb-instr-never-assigned-its-result", ["C20"],
        "ecb_instr compared against a substring of the wrong length, stopped one position early, would have kept the last match and never stored 0: the caller's variable kept its old value",
        {"C20": [{"fn": "instr", "args": [1, "ABAB", "AB"]}, {"fn": "instr", "args": [1, "AB", "X"]}, {"fn": "instr", "args": [2, "ABAB", "AB"]}]},
        status="fixed", commit="7a287a6")

finding("C04-leading-unary-operand-dropped", ["C04"],
        "the optional operand of CLS / HSCREEN / HCLS is silently replaced by the default when it starts with a unary minus or NOT ('CLS -A' gives 'RUN ecb_cls(1.0, display)')",
        {"C04": [P([10, [LET(V("A"), ["neg", N(3)])]], [20, [["dev", "CLS", {"a": ["neg", V("A")]}]]]),
                 P([10, [LET(V("A"), N(2))]], [20, [["dev", "HCLS", {"a": ["not", V("A")]}]]]),
                 P([10, [LET(V("A"), ["neg", N(2)])]], [20, [["dev", "HSCREEN", {"a": ["neg", V("A")]}]]])]},
        switch="cls_operand_no_leading_unary")
LANG_FINDINGS[[f["id"] for f in LANG_FINDINGS].index("C05-width-read-input-operands-not-visited")]["property"].append("C04")
LANG_FINDINGS[[f["id"] for f in LANG_FINDINGS].index("C05-width-read-input-operands-not-visited")]["witnesses"]["C04"] = [
    P([10, [LET(V("A"), N(40))]], [20, [["dev", "WIDTH", {"a": FN("INT", V("A"))}]]]),
    P([10, [LET(V("A"), N(40))]], [20, [["dev", "WIDTH", {"a": B("+", N(40), ["arr", "Q", [N(0)]])}]]])]
LANG_FINDINGS[[f["id"] for f in LANG_FINDINGS].index("C05-width-read-input-operands-not-visited")]["what"] += "; an array that occurs only in a WIDTH operand is never declared"


# ---------------------------------------------------------------- repaired later in the build round
def _find(fid):
    return LANG_FINDINGS[[f["id"] for f in LANG_FINDINGS].index(fid)]

def mark_fixed(fid, commit):
    f = _find(fid)
    f["status"] = "fixed"
    f["commit"] = commit
    f.pop("switch", None)

finding("C05-read-filter-temporary-reused", ["C05"],
        "with an empty DATA item in the program a READ into a numeric target becomes 'READ tmp_1$ \\ RUN ecb_read_filter(tmp_1$, target)'; a string "
        "function in the target's subscript ('READ P(LEN(HEX$(255)))') was given tmp_1$ as well and overwrote the value just read before the filter used it",
        {"C05": [P([10, [LET(["arr", "P", [N(2)]], N(5))]], [20, [["read", [["arr", "P", [FN("LEN", FN("HEX$", N(255)))]]]]]], [30, [PR(["arr", "P", [N(2)]])]],
                   [40, [["data", [["n", "77", 77], ["e"]]]]])]},
        status="fixed", commit="d45f2c4")
mark_fixed("C04-leading-unary-operand-dropped", "ea49ec4")
mark_fixed("C15-hex-data-item-with-empty-item", "ebeb205")
mark_fixed("C15-procedure-name-with-non-word-characters", "4836963")
mark_fixed("C10-implicit-string-arrays-unsized", "5dd1bab")

# the WIDTH half of "operands not visited" is repaired (3a8d956); the READ / INPUT half is pinned by golden tests and stays open
_w = _find("C05-width-read-input-operands-not-visited")
_w["id"] = "C05-read-input-subscripts-not-visited"
_w["what"] = ("the subscripts of READ / INPUT targets are never visited: a function that must become a procedure call is lost there "
              "('READ A(INT(B))' gives 'READ arr_A')")
_w["pinned_by"] = "tests/coco_tests/b09/test_b09.py::TestB09::test_input, test_simple_read (same visit gap as C10-read-input-varptr-only-variables)"
_width_wit = {"C07": _w["witnesses"].pop("C07"), "C04": _w["witnesses"].pop("C04"), "C05": [_w["witnesses"]["C05"][0]]}
_w["witnesses"]["C05"] = _w["witnesses"]["C05"][1:]
_w["property"] = ["C05", "C07"]
_w["switch"] = "no_convertible_in_read_input_subscripts"
# the same gap under VARPTR: the operand's subscripts are not visited either, and there the output is no longer well-formed
_w["what"] += (" - except for numeric READ targets of a program that has an empty DATA item: those READs are rewritten into RUN ecb_read_filter(..) "
               "statements, which are visited")
_w["what"] += "; under VARPTR the lost call leaves a hole: 'A=VARPTR(P(INT(B) AND 7))' gives 'A := ADDR(arr_P(LAND(, 7.0)))'"
_w["witnesses"]["C07"] = [SRC("10 A=VARPTR(P(INT(B) AND 7))")]
finding("C05-width-operand-not-visited", ["C05", "C07", "C04"],
        "the operand of WIDTH was never visited: 'WIDTH INT(A)' gave 'run _ecb_width(, display)', and an array that occurs only in a WIDTH operand was never declared",
        _width_wit, status="fixed", commit="3a8d956")
