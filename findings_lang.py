# -*- python -*-  language-side findings; witnesses are ASTs (see vf/cb/render.py) built with the helpers below
def N(v):
    return ["num", str(v), v]
def V(n):
    return ["var", n]
def SV(n):
    return ["svar", n]
def LET(t, e):
    return ["let", t, e, False]
def PR(*es):
    items = []
    for i, e in enumerate(es):
        if i:
            items.append(["s", ";"])
        items.append(["e", e])
    return ["print", items]
def B(op, a, b):
    return ["bin", op, a, b]
def FN(name, *a):
    return ["fn", name, list(a)]
def IF(c, t, e=None):
    return ["if", c, ["stmts", t], (["stmts", e] if e is not None else None)]
def CMP(op, a, b):
    return ["cmp", op, a, b]
INIT = [10, [LET(V("A"), N(3)), LET(V("B"), N(5)), LET(V("C"), N(6)), LET(V("I"), N(2))]]
def P(*lines, **kw):
    d = {"prog": [list(l) for l in lines]}
    d.update(kw)
    return d

LANG_FINDINGS = []
def finding(fid, props, what, witnesses, switch=None, pinned_by=None, status="open", commit=None):
    f = {"id": fid, "property": props, "status": status, "what": what, "witnesses": witnesses}
    if switch: f["switch"] = switch
    if pinned_by: f["pinned_by"] = pinned_by
    if commit: f["commit"] = commit
    LANG_FINDINGS.append(f)

finding("C01-unary-operand-reach", ["C01"],
        "a unary minus or NOT takes the whole rest of the expression as its operand: '-B AND C' is emitted as '- LAND(B, C)', 'NOT B AND C' as 'LNOT(LAND(B, C))', 'IF NOT A=3 AND B=2' as 'NOT(A = 3.0 AND B = 2.0)'",
        {"C01": [P(INIT, [30, [LET(V("X"), B("AND", ["neg", V("B")], V("C")))]], [40, [PR(V("X"))]]),
                 P(INIT, [30, [LET(V("X"), B("AND", ["not", V("B")], V("C")))]], [40, [PR(V("X"))]], source_override="10 A=3:B=5:C=6:I=2\n30 X=NOT B AND C\n40 PRINT X"),
                 P(INIT, [30, [IF(["band", ["bnot", CMP("=", V("A"), N(3))], CMP("=", V("B"), N(2))], [LET(V("X"), N(1))])]], [40, [PR(V("X"))]],
                   source_override="10 A=3:B=5:C=6:I=2\n30 IF NOT A=3 AND B=2 THEN X=1\n40 PRINT X")]},
        switch="paren_unary")
finding("C01-negated-power", ["C01"],
        "'-B^2' is emitted flat ('- B ^ 2.0'), which BASIC09 groups as (-B)^2 because its unary minus binds tighter than ^; '-2^2' is read as (-2)^2 by the tool itself (the literal pattern swallows the sign); Color BASIC gives -(B^2)",
        {"C01": [P(INIT, [30, [LET(V("X"), ["neg", B("^", V("B"), N(2))])]], [40, [PR(V("X"))]]),
                 P(INIT, [30, [LET(V("X"), ["neg", B("^", N(2), N(2))])]], [40, [PR(V("X"))]])]},
        switch="paren_unary")
finding("C01-fix-rounds", ["C01"],
        "Color BASIC FIX (truncate toward zero) is mapped to BASIC09 FIX, which rounds a REAL to the nearest INTEGER: FIX(2.7) becomes 3",
        {"C01": [P([10, [LET(V("B"), ["num", "2.7", 2.7])]], [30, [LET(V("X"), FN("FIX", V("B")))]], [40, [PR(V("X"))]])]},
        switch="no_fix")
finding("C01-ifelse-bare-numeric-condition", ["C01", "C02"],
        "IF <numeric> THEN .. ELSE .. is emitted as 'IF A THEN' without '<> 0.0' (the plain IF gets it), a REAL where BASIC09 needs a BOOLEAN",
        {"C01": [P(INIT, [30, [IF(["nz", V("A")], [LET(V("X"), N(1))], [LET(V("X"), N(2))])]], [40, [PR(V("X"))]])],
         "C02": [P(INIT, [30, [IF(["nz", V("A")], [LET(V("X"), N(1))], [LET(V("X"), N(2))])]], [40, [PR(V("X"))]])]},
        switch="ifelse_bare_numeric")
finding("C05-ifelse-condition-calls-dropped", ["C05", "C01", "C02"],
        "IF..ELSE and ELSE-IF arms never emit the procedure calls hoisted out of their conditions: 'IF INT(A)=3 THEN .. ELSE ..' tests tmp_1 without ever calling ecb_int, and all arms share tmp_1",
        {"C05": [P(INIT, [30, [IF(CMP("=", FN("INT", V("A")), N(3)), [LET(V("X"), N(1))], [LET(V("X"), N(2))])]], [40, [PR(V("X"))]])],
         "C01": [P(INIT, [30, [IF(CMP("=", FN("INT", V("A")), N(3)), [LET(V("X"), N(1))], [LET(V("X"), N(2))])]], [40, [PR(V("X"))]])],
         "C02": [P(INIT, [30, [IF(CMP("=", FN("INT", V("A")), N(3)), [LET(V("X"), N(1))], [LET(V("X"), N(2))])]], [40, [PR(V("X"))]])]},
        switch="no_convertible_in_ifelse_cond", pinned_by="tests/coco_tests/b09/test_b09.py::TestB09::test_int_lvalue")

finding("C02-elseif-chain-without-else-spins", ["C02"],
        "IF..THEN..ELSE IF..THEN.. without a final ELSE becomes LOOP/EXITIF../ENDLOOP with no unconditional exit: when no arm matches the translation loops for ever, Color BASIC falls through",
        {"C02": [P([10, [LET(V("A"), N(3)), LET(V("B"), N(0))]],
                   [20, [["if", CMP("=", V("A"), N(1)), ["stmts", [LET(V("B"), N(1))]], ["stmts", [IF(CMP("=", V("A"), N(2)), [LET(V("B"), N(2))])]]]]],
                   [30, [PR(V("B"))]])]},
        switch="elseif_needs_else", pinned_by="tests/coco_tests/b09/test_b09.py::TestB09::test_if_else_if")
finding("C02-statements-after-then-line-hoisted", ["C02"],
        "statements that follow 'THEN <line>' on the same line ('IF A=1 THEN 40:C=2') are emitted after the IF and run when the condition is false; Color BASIC skips to the next line",
        {"C02": [P([10, [LET(V("A"), N(3)), LET(V("C"), N(0))]],
                   [20, [["if", CMP("=", V("A"), N(1)), ["line", 40, [LET(V("C"), N(2))]], None]]],
                   [30, [PR(V("C"))]], [40, [PR(V("A"))]])]})
finding("C02-for-zero-trip", ["C02", "C01"],
        "a FOR whose start value is already past its limit runs its body once in Color BASIC and not at all in BASIC09 (FOR tests before the first iteration); the tool emits FOR unchanged",
        {"C02": [P([10, [LET(V("T"), N(0))]], [20, [["for", "I", N(1), N(0), None], LET(V("T"), B("+", V("T"), N(1))), ["next", []]]], [30, [PR(V("T"))]],
                   skip_zero_trip=False)],
         "C01": [P([10, [LET(V("T"), N(0))]], [20, [["for", "I", N(1), N(0), None], LET(V("T"), B("+", V("T"), N(1))), ["next", []]]], [30, [PR(V("T"))]],
                   skip_zero_trip=False)]})
finding("C02-bare-next-after-explicit-next", ["C02"],
        "a bare NEXT that followed an explicit 'NEXT J' of an inner loop was given the inner loop's variable",
        {"C02": [P([10, [LET(V("T"), N(0))]], [20, [["for", "I", N(1), N(2), None]]], [30, [["for", "J", N(1), N(2), None]]],
                   [40, [LET(V("T"), B("+", V("T"), N(1))), ["next", ["J"]]]], [50, [["next", []]]], [60, [PR(V("T"))]])]},
        status="fixed", commit="dcd1581")

def SRC(text, **kw):
    d = {"source": text, "options": {}}
    d.update(kw)
    return d

finding("C07-basic09-reserved-words-as-variables", ["C07"],
        "Color BASIC variables named DO, PI or SQ (or longer names truncated to them, e.g. PIN) are emitted unchanged although they are BASIC09 reserved words",
        {"C07": [SRC("10 PI=3"), SRC("10 DO=1:PRINT DO"), SRC("10 PIN=2")]},
        switch="no_b09_reserved_names")
finding("C05-width-read-input-operands-not-visited", ["C05", "C07"],
        "the operands of WIDTH and the subscripts of READ / INPUT targets are never visited: a function that must become a procedure call is lost there ('WIDTH INT(A)' gives 'run _ecb_width(, display)', 'READ A(INT(B))' gives 'READ arr_A')",
        {"C07": [SRC("10 WIDTH INT(A)")],
         "C05": [P([10, [LET(V("A"), N(40))]], [20, [["dev", "WIDTH", {"a": FN("INT", V("A"))}]]]),
                 P([10, [LET(V("B"), N(2))]], [20, [["read", [["arr", "Q", [FN("INT", V("B"))]]]]]], [30, [["data", [["n", "5", 5]]]]], [40, [PR(["arr", "Q", [N(2)]])]])]},
        switch="no_convertible_in_width_read_input")

finding("C07-hcircle-default-colour-statement", ["C07"],
        "HCIRCLE with an omitted colour and a convertible function in a later operand printed the hoisted call inside the argument list",
        {"C07": [SRC("10 HCIRCLE(1,2),3,,INT(A)"), SRC("10 HCIRCLE(1,2),3,,BUTTON(0),INT(C),1")]},
        status="fixed", commit="346ca10")
