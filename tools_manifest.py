#!/usr/bin/env python3
"""Regenerate MANIFEST.json from the table below (developer tool)."""
import json, os, sys
HERE = os.path.dirname(os.path.abspath(__file__))
sys.path.insert(0, HERE)

BASELINE = "cd /repo && /venv/bin/python -m pytest -ra -q -p no:cacheprovider --timeout=900 --continue-on-collection-errors"

CHECKS = {}
NOT_YET = {}

def claim(pid, technique, text, note, design_ref):
    CHECKS[pid] = dict(technique=technique, text=text, note=note, design_ref=design_ref)

exec(open(os.path.join(HERE, "manifest_table.py")).read())

props = [json.loads(l) for l in open(os.path.join(HERE, "properties.jsonl"))]
checks = []
na = []
for p in props:
    pid = p["id"]
    if pid in CHECKS:
        c = CHECKS[pid]
        checks.append({
            "property_id": pid,
            "quick_cmd": "./check %s quick" % pid,
            "thorough_cmd": "./check %s thorough" % pid,
            "evidence_file": "evidence/%s.json" % pid,
            "replay_cmd_template": "./check %s --replay {path}" % pid,
            "engine": "vf",
            "level_claimed": {"category": "exploration", "text": c["text"], "design_ref": c["design_ref"]},
            "level_note": c["note"],
            "technique": c["technique"],
        })
    else:
        na.append({"property_id": pid, "reason": NOT_YET.get(pid, "check not built yet in this round; see DESIGN.md section 6 for the planned generator and oracle")})
m = {
    "version": 1,
    "setup_cmd": "./setup.sh",
    "hooks": {
        "guard": "COCO_TOOLS_VERIF",
        "enable": "no hooks are needed: every observation point is public API (convert(), the decoders' start(), the text of ecb.b09); the checks import /repo's working tree directly",
        "baseline_off_cmd": BASELINE,
        "source_commits": [],
        "add_only": True,
    },
    "engines": [{"name": "vf", "path": "vf/", "serves_properties": sorted(CHECKS), "kind_free_text": "Hypothesis-driven property-based testing framework with reference interpreters, format models and fault injection (pure Python, /venv/bin/python)"}],
    "checks": checks,
    "notes": NOTES,
    "not_applicable": na,
}
json.dump(m, open(os.path.join(HERE, "MANIFEST.json"), "w"), indent=1)
print("claimed:", sorted(CHECKS), "not claimed:", [x["property_id"] for x in na])
