#!/usr/bin/env python3
"""Regenerate known_findings.json from findings_src.py + findings_lang.py (developer tool)."""
import json, os, sys
HERE = os.path.dirname(os.path.abspath(__file__))
sys.path.insert(0, HERE)
ns = {}
exec(open(os.path.join(HERE, "findings_src.py")).read(), ns)
exec(open(os.path.join(HERE, "findings_lang.py")).read(), ns)
out = {
    "_comment": "One entry per root cause. status=open: genuine defect of the unchanged tree that is recorded, not repaired (each witness is replayed through the check's own oracle on every run and reported as KNOWN-FINDING; the named generator switch steers generated cases away from exactly that input shape and the evidence counts how often). status=fixed: repaired by the named 'fix:' commit in /repo; its witnesses are ordinary regression cases and suppress nothing. Never written at run time.",
    "findings": ns["FINDINGS"] + ns["LANG_FINDINGS"],
    "fixed_log": ns["FIXED_LOG"],
}
ids = [f["id"] for f in out["findings"]]
assert len(ids) == len(set(ids)), "duplicate finding id"
json.dump(out, open(os.path.join(HERE, "known_findings.json"), "w"), indent=1)
print(len(out["findings"]), "findings written")
