# -*- python -*-  (exec'd by tools_manifest.py)
NOTES = ("All checks are property-based tests / fuzzers (Hypothesis 6.168) run by ./check <ID> <tier>; "
         "exit 0 = held on everything explored, 1 = VIOLATION line, 2 = harness error. "
         "known_findings.json lists recorded defects (open) and repaired ones (fixed, with the fix: commit).")

claim("C12",
      "metamorphic PBT: Hypothesis rule-based state machine over conversion/decoding histories + differential runs of one generated batch in fresh interpreters under many PYTHONHASHSEED values",
      "Generated-input search: shows byte-identical output on every generated (program, options, history, hash seed) explored; cannot show absence of a dependence that needs an untried seed or history.",
      "Trusts Python's PYTHONHASHSEED as the only source of cross-process iteration-order variation; seeds are sampled (8 quick / 64 thorough).",
      "DESIGN.md section 6, C12")

IMG_NOTE = ("Trusts the format readings of DESIGN.md appendix E (validated by round trips against the shipped decoders), the "
            "transcribed MGE composite table and MAX mode tables, and the 110-line Netpbm/PNG readers in vf/img/readers.py.")
claim("C16",
      "round-trip PBT: Hypothesis-generated images -> independent reference encoder -> real decoder -> independent PPM/PGM/PNG reader, every sample compared; exhaustive palette-slot x colour-code sweeps",
      "Generated-input search over pixel content, palettes, header variants and pixel modes with a sample-exact oracle; the HRS palette sweep (16 slots x 64 codes) is enumerated completely on every run, the MGE/CM3/VEF sweeps in the thorough tier.",
      IMG_NOTE, "DESIGN.md section 6, C16")
claim("C17",
      "round-trip PBT with nondeterministic reference encoders (every run-length / literal / copy decision drawn) + differential against the uncompressed twin",
      "Generated-input search over images and over the valid encodings of each image; oracle is sample-exact equality with the source image and with the decoding of the uncompressed form.",
      IMG_NOTE + " The RAT right-pixel mask is an open finding (pinned by the stored fixture); RAT right pixels are kept in 0-7 while it is open.", "DESIGN.md section 6, C17")
claim("C18",
      "PBT over option values and I/O variants with a completeness oracle (independent reader), metamorphic skip-vs-strip and stream-vs-file relations, real OS pipes",
      "Generated-input search over widths, heights, skips, MAX length fields / Newsroom headers / pixel modes and file-vs-stream variants; checks header dimensions, exact sample count, skip equivalence and byte equality between stream and file output.",
      IMG_NOTE + " Odd HRS widths and MAX widths not divisible by 8 are open findings and excluded while open.", "DESIGN.md section 6, C18")
claim("C19",
      "fault-injection fuzzing: exhaustive prefixes of small valid files, Hypothesis-drawn truncations / single-byte corruptions / appended garbage / random byte strings, oracle 'reported failure or complete image'",
      "Generated and enumerated faults against the real decoders; every success is re-read with the independent reader and must be a complete image; seven recorded findings are recognised from the input by a format-grammar classifier (vf/img/wellformed.py), anything else is a violation.",
      IMG_NOTE + " 'never hangs' is judged with a 30 s / 120 s limit against a normal cost below 0.6 s.", "DESIGN.md section 6, C19")

LANG_NOTE = ("Trusts the two reference interpreters written for this purpose (vf/cb/interp.py, vf/b09/interp.py) and the facts "
             "CB-1..CB-9 / B09-1..B09-9 listed in DESIGN.md section 3; constructs whose BASIC09 behaviour is uncertain (U-1..U-7) are never "
             "generated. Number formatting is abstract (README documents that it differs). ")
claim("C01",
      "differential PBT: Hypothesis-generated typed expression trees in six statement contexts + complete enumeration of small operator trees (also with negated leaves) + long flat chains, Color BASIC reference interpreter on the AST vs BASIC09 reference interpreter on convert() output; a refused program of the fragment is a violation",
      "Generated-input search over expression shapes (depth <= 4), literal spellings, initial values and statement contexts; the oracle compares every printed variable/element value and the branch taken. Five recorded defects are replayed as witnesses and steered around by construction.",
      LANG_NOTE, "DESIGN.md section 6, C01")
claim("C02",
      "differential PBT: Hypothesis-generated structurally terminating control-flow programs + complete enumeration of ON..GOTO/GOSUB lists x selector values, event-trace comparison between the Color BASIC and BASIC09 reference interpreters under all four option sets",
      "Generated-input search over nested blocks of IF/ELSE/ELSE-IF, FOR/NEXT (STEP, bare NEXT, NEXT lists), GOTO/GOSUB/ON, END/STOP; the oracle compares the full sequence of observable events and the way the run ends, and requires the translation to stop when the source stops.",
      LANG_NOTE, "DESIGN.md section 6, C02")

PARSE_NOTE = ("Trusts the strict BASIC09 parser written for this purpose (vf/b09/lex.py, vf/b09/parse.py: statement grammar, reserved-word list, "
              "block nesting rules) and, where used, the library scanner; both read emitted text through the parser, never by matching the tool's present spelling. ")
claim("C06",
      "PBT with a validity predicate over the output: Hypothesis-generated reference graphs, reference/definition sets derived from the AST, labels and jump targets read from the parsed output, metamorphic filter-on vs filter-off comparison, dispatcher block executed in the BASIC09 reference interpreter",
      "Generated-input search over programs with arbitrary reference graphs and all four filter_unused_linenum x add_suffix combinations; decides refusal conditions, target/label correspondence (via per-line markers), exact label sets, 'only labels differ' between filter settings, and the routing of injected error numbers by the 32700 dispatcher.",
      PARSE_NOTE + "The dispatcher's 'errnum' is taken to mean the trapped error number.", "DESIGN.md section 6, C06")
claim("C07",
      "grammar-directed PBT with a validity predicate: full-grammar random programs and the bundled examples under drawn option sets, output must be accepted by a strict BASIC09 parser (statements, block nesting, operands, literals, reserved words) and contain no internal object text",
      "Generated-input search over all statement kinds (every device-statement form and presence pattern) and option sets incl. dependencies; the oracle is a strict parser plus block-structure check, permissive about everything the property excludes (types, case, spacing).",
      PARSE_NOTE, "DESIGN.md section 6, C07")
claim("C09",
      "exhaustive enumeration + PBT with a validity predicate: one probe program per (name, kind) for all 962 names of <= 2 characters x 4 kinds, Hypothesis-drawn 3-4 character names in systematic families; emitted identifiers located through source line labels in the parsed output; global injectivity / collision check over all facts of the run",
      "The <= 2-character name space is enumerated completely on every run; longer names are searched. Decides position-independence of the emitted identifier, 'same identifier iff same first two characters, suffix and kind', and absence of collisions with identifiers the tool generates (computed per output, not from today's spelling).",
      PARSE_NOTE, "DESIGN.md section 6, C09")
claim("C10",
      "PBT with a validity predicate over parsed declarations: Hypothesis-generated programs placing variables in every position class x default string size x per-name size maps x initialize_vars; expected declarations derived from the generated model, identifiers learnt by probing the tool",
      "Generated-input search; decides exactly-once declaration before first use, bound+1 / 11 elements per dimension, no duplicate identifier, and explicit STRING[n] sizes (configured or default) for every string scalar, array and temporary; StringConfigs validation is checked on a table of valid and invalid maps.",
      PARSE_NOTE, "DESIGN.md section 6, C10")
claim("C13",
      "PBT with a validity predicate: Hypothesis-generated programs with planted trigger words in literals / DATA / comments x procedure names x string sizes; independent token-level scanner of the bundle and of the current ecb.b09; expected bundle = RUN-closure in the library call graph",
      "Generated-input search; decides 'exactly the reachable procedures, once each, sorted, program last', 'every RUN resolves inside the bundle or to a system module', 'no placeholder left, every placeholder sized' and 'user literals unchanged' by comparison with the dependency-free conversion.",
      PARSE_NOTE, "DESIGN.md section 6, C13")
claim("C14",
      "PBT with a validity predicate: Hypothesis-generated programs over every RUN-producing construct and operand shape; interfaces parsed from the current ecb.b09; arity and string/numeric/record kind of every RUN argument checked, plus one enumeration of all RUNs inside the library and a field-by-field comparison of the record TYPE lines",
      "Generated-input search over emitted calls; the library-internal calls and the record types are enumerated completely on every run.",
      PARSE_NOTE, "DESIGN.md section 6, C14")
claim("C08",
      "metamorphic PBT: one generated AST rendered canonically and in 6-10 layouts drawn token boundary by token boundary; all spellings must be rejected alike or convert to byte-identical output; literal / DATA / comment content recovered from the output by an independent tokenizer",
      "Generated-input search over programs x layouts (blanks, ?/PRINT, LF/CR/CRLF, empty lines, trailing NUL, blanks inside numeric literals). Found and repaired: CR line ends and trailing NUL leaking into comments / DATA / open strings.",
      PARSE_NOTE + "Layout freedom is limited to what Color BASIC and the README allow.", "DESIGN.md section 6, C08")
claim("C11",
      "metamorphic PBT: per option a projection under which on/off outputs must be equal (labels stripped, initialiser lines removed and recognised structurally, start-up flag masked, bundle prefix removed, string sizes removed), over drawn settings of the other options; differential CLI-vs-API check of decb-to-b09 with the documented flag mapping",
      "Generated-input search over programs x option settings (4 random settings of the other options per program in the quick tier, all 32 in the thorough tier) and over CLI flag subsets, -c files and input file names.",
      PARSE_NOTE, "DESIGN.md section 6, C11")
claim("C15",
      "grammar-directed mutation fuzzing under Hypothesis: token deletions / duplications / swaps / replacements, extreme literals, spliced programs, deep nesting, raw text, drawn option sets and size maps, CLI file names; oracle 'text or documented refusal, no hang', internal failures bucketed by (exception type, innermost function in coco/, message part)",
      "Generated-input search; five recorded internal failures are recognised by call site, any other internal exception, wrong return type or hang is a violation. The thorough tier adds four coverage-guided atheris/libFuzzer campaigns (150 000 runs each) with the same oracle inside the fuzz target.",
      "Trusts the list of documented refusal exceptions; hang limit 20 s / 120 s against a normal cost of milliseconds.", "DESIGN.md section 6, C15")
claim("C03",
      "differential PBT: Hypothesis-generated programs over arrays / DATA-READ-RESTORE / PRINT lists / INPUT / string functions, event-trace comparison between the Color BASIC and BASIC09 reference interpreters under storage 32/80 and both initialize_vars values, with uninitialised-read and truncation tracking in the BASIC09 interpreter",
      "Generated-input search; the oracle compares every PRINT event (items, separator kinds, line ends, numbers by value), every INPUT event (prompt, target count) and through them all element and variable values; with initialize_vars any read of a never-written variable or element in the translation is a violation.",
      LANG_NOTE, "DESIGN.md section 6, C03")
claim("C04",
      "differential PBT against a role table: every device-statement form enumerated once with literal operands + Hypothesis-drawn operand expressions; Color BASIC reference evaluates operands, BASIC09 reference records every RUN; parameter positions looked up by name in the current ecb.b09",
      "The 59 statement forms are enumerated completely on every run; operand expressions are searched. Decides procedure choice, value at the position of each role's parameter, documented defaults for omitted operands, record arguments, speed-poke handling and the HBUFF prologue.",
      LANG_NOTE + "The role table (DESIGN.md appendix D) is written from the Color BASIC manuals.", "DESIGN.md section 6, C04")
claim("C05",
      "differential + static PBT: Hypothesis-generated nests of convertible functions in 15 statement slots inside a two-iteration loop; call sequence (function, argument values) of the Color BASIC reference vs RUN events of the BASIC09 reference, scripted device values make order observable; static def-before-use check of temporaries per statement group",
      "Generated-input search over slots and nesting patterns; decides once-per-execution, order, no lost call or operand (printed values), and that no temporary is read before the same statement group assigns it.",
      LANG_NOTE + "Whether a printed number passes through the formatter is number formatting (not judged).", "DESIGN.md section 6, C05")
claim("C20",
      "exhaustive enumeration with a reference-model oracle: the text of ecb_instr / ecb_string / ecb_read_filter from the current ecb.b09 is executed by the BASIC09 reference interpreter over complete small domains and compared with the Color BASIC definitions",
      "INSTR: all 5 292 (start, subject over {A,B} up to length 5, pattern up to length 3) triples; STRING$: 14 strings x a stride of counts (all 256 in the thorough tier); read filter: the empty item and 30 numeral spellings. Found and repaired: ecb_instr never assigned its result.",
      "Trusts B09-4/B09-5/B09-8 (FOR semantics, INTEGER variables, MID$/LEN/VAL) as implemented in vf/b09/interp.py.", "DESIGN.md section 6, C20")
