# -*- python -*-  (exec'd by tools_manifest.py)
NOTES = ("All checks are property-based tests / fuzzers (Hypothesis 6.168) run by ./check <ID> <tier>; "
         "exit 0 = held on everything explored, 1 = VIOLATION line, 2 = harness error. "
         "known_findings.json lists recorded defects (open) and repaired ones (fixed, with the fix: commit).")

claim("C12",
      "metamorphic PBT: Hypothesis rule-based state machine over conversion/decoding histories + differential runs of one generated batch in fresh interpreters under many PYTHONHASHSEED values",
      "Generated-input search: shows byte-identical output on every generated (program, options, history, hash seed) explored; cannot show absence of a dependence that needs an untried seed or history.",
      "Trusts Python's PYTHONHASHSEED as the only source of cross-process iteration-order variation; seeds are sampled (8 quick / 64 thorough).",
      "DESIGN.md section 6, C12")
