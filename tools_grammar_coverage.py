#!/usr/bin/env python3
"""developer tool: which rules of the tool's PEG grammar do the generators reach?
Patches parsimonious' NodeVisitor.visit at run time (nothing in /repo changes), converts N programs of each generator and lists
the named grammar rules that never matched.   usage: PYTHONPATH=/repo:/verif /venv/bin/python tools_grammar_coverage.py [N]"""
import sys, collections
from hypothesis import given, settings, seed, strategies as st, HealthCheck
import parsimonious.nodes as pn
from coco.b09 import grammar as G
from vf import tool
from vf.cb import render

hits = collections.Counter()
_orig = pn.NodeVisitor.visit
def visit(self, node):
    if node.expr_name:
        hits[node.expr_name] += 1
    return _orig(self, node)
pn.NodeVisitor.visit = visit

N = int(sys.argv[1]) if len(sys.argv) > 1 else 300
from vf.props import c01, c02, c03, c04, c05, c06, c07, c08, c10, c13
from vf.gen import full

def run(name, strat, get):
    @seed(7)
    @settings(max_examples=N, database=None, deadline=None, suppress_health_check=list(HealthCheck))
    @given(strat)
    def t(c):
        for src in get(c):
            tool.try_convert(src)
    before = len(hits)
    t()
    print("%-6s rules hit so far: %d (+%d)" % (name, len(hits), len(hits) - before), file=sys.stderr)

sw = frozenset()
def rsrc(c):
    return [c.get("source_override") or c.get("source") or render.render(c["prog"])]
run("full", full.full_programs(sw, max_lines=8, operand_depth=2), rsrc)
run("c01", c01.cases(sw), rsrc)
run("c02", c02.cases(sw), rsrc)
run("c03", c03.cases(sw), rsrc)
run("c04", c04.cases(sw), rsrc)
run("c05", c05.cases(sw), rsrc)
run("c08", c08.cases(sw), lambda c: c["sources"][:3])
run("c10", c10.cases(sw), lambda c: [c["source"]])
rules = [k for k in G.grammar.keys()]
missing = sorted(r for r in rules if hits[r] == 0)
print("grammar rules: %d, reached: %d" % (len(rules), len(rules) - len(missing)))
print("never reached:", missing)
rare = sorted((hits[r], r) for r in rules if 0 < hits[r] < 20)
print("rare (<20 hits):", rare)
