"""Hypothesis strategies for image specs (see vf.img.model for what a spec means).

Structure (format, sizes, options, palette, pattern, encoder policy) is drawn
by Hypothesis; bulk pixel bytes and per-decision encoder choices come from a
PRNG seeded with a drawn integer, because 32 000 individual draws per image
would exceed Hypothesis' entropy buffer.  A spec is a pure function of its
JSON form, which is what replay files store."""
from hypothesis import strategies as st

from vf.img import model

palettes = st.one_of(
    st.lists(st.integers(0, 63), min_size=16, max_size=16),
    st.permutations(list(range(16))).map(lambda p: [(x * 4 + 1) % 64 for x in p]),
    st.integers(0, 3).map(lambda k: [16 * k + i for i in range(16)]),
)
patterns = st.sampled_from(model.PATTERNS)
seeds = st.integers(0, 2 ** 32 - 1)


# -s N: the decoders put no bound on N, so neither does the generator: small counts, counts at and around the
# sizes at which chunked or buffered skipping changes behaviour (2^k and multiples of 256, each -1/0/+1), and a mid range
skip_counts = st.one_of(
    st.integers(0, 40),
    st.integers(0, 40),
    st.tuples(st.sampled_from([128, 256, 512, 768, 1024, 2048, 4096, 8192, 65536]), st.integers(-1, 1)).map(sum),
    st.integers(41, 3000),
)


def _base(fmt):
    return st.fixed_dictionaries({"fmt": st.just(fmt), "seed": seeds, "palette": palettes, "pattern": patterns})


@st.composite
def hrs_spec(draw, options=True, even_width=True, small=True):
    s = draw(_base("hrs"))
    if options and draw(st.integers(0, 7)) == 0:
        # payload of exactly 2^k bytes (k = 8..15): sizes at which block-wise readers and writers change behaviour
        k = draw(st.integers(8, 15))
        a = draw(st.integers(0, min(k, 8)))
        s["w"] = 2 * (1 << a)
        s["h"] = 1 << (k - a)
        s["pattern"] = draw(st.sampled_from(["random", "ramp", "runs"]))
        if draw(st.integers(0, 3)) == 0:
            s["skip"] = draw(skip_counts)
        return s
    if options:
        if draw(st.booleans()):
            if even_width:
                s["w"] = 2 * draw(st.integers(1, 40 if small else 350))
            else:
                s["w"] = draw(st.integers(1, 80 if small else 700))
        if draw(st.booleans()) or small:
            s["h"] = draw(st.integers(1, 12 if small else 250))
        if draw(st.booleans()):
            s["skip"] = draw(skip_counts)
    elif small:
        s["w"] = 2 * draw(st.integers(1, 40))
        s["h"] = draw(st.integers(1, 12))
    return s


@st.composite
def pix_spec(draw, small=True):
    s = {"fmt": "pix", "seed": draw(seeds), "pattern": draw(patterns)}
    s["side"] = 2 * draw(st.integers(1, 32)) if small or draw(st.integers(0, 3)) else 128
    return s


@st.composite
def max_spec(draw, options=True, width_mult8=True):
    s = {"fmt": "max", "seed": draw(seeds), "pattern": draw(patterns)}
    s["mode"] = draw(st.sampled_from(model.MAX_MODES))
    if options and draw(st.integers(0, 9)) == 0:
        # payload of exactly 2^k bytes (k = 8..14)
        k = draw(st.integers(8, 15))  # 2^15 bytes: the length field of the header reaches 0x8000
        a = draw(st.integers(0, min(k, 6)))
        s["cols"] = 8 * (1 << a)
        if draw(st.booleans()):
            s["rows"] = 1 << (k - a)
        else:
            s["rows_opt"] = 1 << (k - a)
        s["pattern"] = draw(st.sampled_from(["random", "ramp", "runs"]))
        return s
    kind = draw(st.sampled_from(["default", "w", "w_r", "newsroom", "skip"])) if options else draw(st.sampled_from(["default", "newsroom"]))
    if kind == "newsroom":
        s["newsroom"] = True
        s["cols"] = 8 * draw(st.integers(1, 40))
        s["rows"] = draw(st.integers(1, 40))
        if options and draw(st.booleans()):
            s["skip"] = draw(skip_counts)
        return s
    if kind == "default":
        s["rows"] = draw(st.integers(1, 48))
        return s
    if width_mult8:
        s["cols"] = 8 * draw(st.integers(1, 60))
    else:
        s["cols"] = draw(st.integers(1, 500))
    if kind == "w_r":
        s["rows_opt"] = draw(st.integers(1, 30))
    else:
        # height derived from the length field: cols*rows must be a multiple of 8
        s["rows"] = draw(st.integers(1, 30))
        if (s["cols"] * s["rows"]) % 8:
            s["rows"] *= 8
    if kind == "skip" or draw(st.integers(0, 3)) == 0:
        s["skip"] = draw(skip_counts)
    return s


@st.composite
def mge_spec(draw, compressed=None):
    s = draw(_base("mge"))
    s["composite"] = draw(st.booleans())
    comp = draw(st.booleans()) if compressed is None else compressed
    s["compressed"] = comp
    if comp:
        s["policy"] = draw(st.sampled_from(["mixed", "max"]))
        s["pattern"] = draw(st.sampled_from(["runs", "runs", "constant", "rows_repeat", "random", "single_odd", "all_00", "low_values"]))
    # title with NUL at a drawn position
    nul = draw(st.integers(0, 29))
    s["title"] = bytes([65 + (i % 26) for i in range(nul)]) + b"\0" + bytes([draw(st.integers(0, 255))]) * (29 - nul)
    return s


@st.composite
def rat_spec(draw, low_nibble_limit=None):
    s = draw(_base("rat"))
    s["pattern"] = draw(st.sampled_from(["runs", "runs", "constant", "rows_repeat", "random", "single_odd", "byte_checker", "low_values", "all_00"]))
    s["escape"] = draw(st.one_of(st.integers(0, 255), st.sampled_from([0, 0x11, 0x77, 255])))
    s["policy"] = draw(st.sampled_from(["mixed", "mixed", "max", "literal"]))
    if low_nibble_limit:
        s["low_nibble_limit"] = low_nibble_limit
    return s


@st.composite
def cm3_spec(draw, coded=None):
    s = draw(_base("cm3"))
    s["two_pages"] = draw(st.booleans())
    s["no_patterns"] = draw(st.booleans())
    c = draw(st.booleans()) if coded is None else coded
    s["coded"] = c
    if c:
        s["pattern"] = draw(st.sampled_from(["rows_repeat", "runs", "constant", "random", "single_odd", "nibble_checker", "low_values", "all_00"]))
        s["p_raw"] = draw(st.sampled_from([0.0, 0.1, 0.3]))
        policy = draw(st.sampled_from(["mixed", "mixed", "left_always", "up_always", "literal_heavy"]))
        if policy == "left_always":
            # an encoder that copies from the left whenever it can: solid lines get an empty second mask (control byte 0)
            s["p_copy"], s["prefer"] = 1.0, "left"
            s["pattern"] = draw(st.sampled_from(["constant", "all_00", "runs", "rows_repeat"]))
        elif policy == "up_always":
            s["p_copy"], s["prefer"] = 1.0, "up"
        elif policy == "literal_heavy":
            s["p_copy"] = 0.5
    return s


@st.composite
def vef_spec(draw, squashed=None):
    s = draw(_base("vef"))
    s["type"] = draw(st.sampled_from([0, 1, 3]))
    q = draw(st.booleans()) if squashed is None else squashed
    s["squashed"] = q
    if q:
        s["policy"] = draw(st.sampled_from(["mixed", "max"]))
        s["pattern"] = draw(st.sampled_from(["runs", "rows_repeat", "constant", "random", "single_odd", "low_values", "all_ff"]))
    return s
