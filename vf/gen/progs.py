"""Structurally terminating control-flow programs (for C02, C06, C07 ...).

A program is built as nested *blocks* of lines.  Jumps use symbolic line ids
that are resolved to numbers at the end; GOTO/THEN/ON targets stay inside the
block they occur in (forward freely, backward only under a decrementing
counter), GOSUB targets live behind the final END, loops are lexically nested
FOR/NEXT with constant small bounds.  Every line starts with a marker PRINT so
"which line was reached" is observable."""
from hypothesis import strategies as st

from vf.gen import cbgen


# loop variables: consecutive (hence often nested) loops get names of which one is a prefix of the other - F1 / F, GA / G ... - and unrelated ones
LOOP_NAMES = ["F1", "F", "FA", "G", "GA", "H2", "H", "HH", "E", "E9"]


class Line:
    def __init__(self, stmts, lid):
        self.stmts = stmts
        self.lid = lid


class ProgGen:
    def __init__(self, draw, switches=frozenset(), max_lines=14, device=False):
        self.draw = draw
        self.sw = frozenset(switches)
        self.g = cbgen.Gen(draw, switches, convertible=False, arrays=False, strings=False)
        self.lines = []
        self.next_id = 0
        self.max_lines = max_lines
        self.scale = False
        self.subs = []  # subroutine line ids
        self.counters = 0
        self.loopvars = 0
        self.features = set()
        self.excluded = cbgen.Counter()
        self.fixups = []  # (container list, index, lid) for symbolic targets

    def d(self, s):
        return self.draw(s)

    def on(self, sw):
        if sw in self.sw:
            self.excluded.hit(sw)
            return True
        return False

    def new_id(self):
        self.next_id += 1
        return self.next_id

    def marker(self, lid):
        return ["print", [["e", ["str", "L%d" % lid]], ["s", ";"]]]

    def cond(self):
        g = self.g
        v = ["var", self.d(st.sampled_from(["A", "B", "C"]))]
        k = ["num", str(self.d(st.integers(0, 3))), 0]
        k[2] = int(k[1])
        c = ["cmp", self.d(st.sampled_from(cbgen.REL_OPS)), v, k]
        r = self.d(st.integers(0, 9))
        if r == 0:
            c2 = ["cmp", "=", ["var", self.d(st.sampled_from(["A", "B", "C"]))], ["num", "1", 1]]
            return [self.d(st.sampled_from(["band", "bor"])), c, c2]
        if r == 1:
            return ["bnot", ["bpar", c]] if "paren_unary" in self.sw else ["bnot", c]
        if r == 2:
            self.features.add("bare_numeric_condition")
            return ["nz", v]
        return c

    def selector(self, stmts):
        """ON selector: a variable, or a converted function of it (the call must run right before the ON, after whatever precedes it on the
        line) - sometimes with an assignment to that very variable as the preceding statement."""
        v = self.d(st.sampled_from(["A", "B", "C"]))
        if self.scale and self.d(st.integers(0, 3)):
            # long ON lists are only exercised by selectors beyond the first few targets
            n_ = self.d(st.sampled_from([1, 4, 8, 9, 10, 11, 12, 13, 15, 16, 17]))
            stmts.append(["let", ["var", v], ["num", str(n_), n_], False])
            self.features.add("scale_on_selector_up_to_13")
        r = self.d(st.integers(0, 5))
        if r >= 4:
            stmts.append(["let", ["var", v], ["bin", "+", ["var", v], ["num", "1", 1]], False])
            self.features.add("selector_variable_assigned_just_before_on")
        if r in (1, 4):
            self.features.add("on_selector_converted_function")
            return ["fn", "INT", [["var", v]]]
        if r in (2, 5):
            self.features.add("on_selector_converted_function")
            return ["bin", "+", ["fn", "INT", [["bin", "/", ["bin", "*", ["var", v], ["num", "2", 2]], ["num", "2", 2]]]], ["num", "0", 0]]
        return ["var", v]

    def simple(self):
        r = self.d(st.integers(0, 5))
        v = self.d(st.sampled_from(["A", "B", "C", "T"]))
        if r < 3:
            return ["let", ["var", v], ["bin", "+", ["var", v], ["num", "1", 1]], False]
        if r < 5:
            return ["print", [["e", ["var", v]], ["s", ";"]]]
        if self.d(st.integers(0, 3)) == 0:
            # a constant written with a decimal point (it may stand directly before ELSE, ':' or the line end)
            self.features.add("decimal_point_constant")
            return ["let", ["var", v], ["num", self.d(st.sampled_from(["1.5", ".5", "2.", "0.25", "3.0"])), 0], False]
        return ["let", ["var", v], ["num", str(self.d(st.integers(0, 3))), 0], False]

    def fix_num(self, s):
        # literal nodes built with a placeholder value
        if isinstance(s, list):
            if len(s) == 3 and s[0] == "num" and isinstance(s[1], str):
                s[2] = int(s[1]) if s[1].lstrip("-").isdigit() else float(s[1])
            for x in s:
                self.fix_num(x)

    def inline_stmts(self, n, depth, sibling_ids):
        """Statements that can live inside a THEN/ELSE branch on one line."""
        out = []
        for _ in range(n):
            r = self.d(st.integers(0, 9))
            if self.d(st.integers(0, 11)) == 0:
                out.append(["empty"])  # nothing between two colons, or between a colon and ELSE / the line end
                self.features.add("empty_statement")
            if r < 6 or depth <= 0:
                out.append(self.simple())
            elif r < 7 and sibling_ids:
                t = self.d(st.sampled_from(sibling_ids))
                out.append(["goto", ("L", t)])
                self.features.add("goto_in_branch")
                break
            elif r < 8 and self.subs:
                out.append(["gosub", ("L", self.d(st.sampled_from(self.subs)))])
                self.features.add("gosub")
            elif r < 9:
                out.append(self.d(st.sampled_from([["end"], ["stop"]])))
                self.features.add("end_in_branch")
                break
            else:
                out.append(self.one_line_for())
        return out

    def one_line_for(self):
        self.loopvars += 1
        v = LOOP_NAMES[self.loopvars % len(LOOP_NAMES)]
        self.features.add("one_line_for")
        if self.d(st.integers(0, 2)) == 0:
            # two nested loops closed by one NEXT with a variable list (or NEXT:NEXT)
            self.loopvars += 1
            w = LOOP_NAMES[self.loopvars % len(LOOP_NAMES)]
            if w == v:
                w = "H1"
            close = self.d(st.sampled_from(["list", "list", "two_bare", "inner_named"]))
            self.features.add("next_variable_list" if close == "list" else "nested_one_line_for")
            tail = {"list": [["next", [w, v]]], "two_bare": [["next", []], ["next", []]], "inner_named": [["next", [w]], ["next", []]]}[close]
            return ["__seq__", [["for", v, ["num", "1", 1], ["num", str(self.d(st.integers(1, 2))), 0], None],
                                ["for", w, ["num", "0", 0], ["num", str(self.d(st.integers(0, 2))), 0], None],
                                ["print", [["e", ["bin", "+", ["bin", "*", ["var", v], ["num", "10", 10]], ["var", w]]], ["s", ";"]]]] + tail]
        return ["__seq__", [["for", v, ["num", "1", 1], ["num", str(self.d(st.integers(1, 3))), 0], None],
                            self.simple(), ["next", [] if self.d(st.booleans()) else [v]]]]

    def branch(self, depth, fwd_ids, closed=False):
        """A THEN or ELSE branch.  closed=True: an ELSE of an enclosing IF follows this branch in the
        source text, so an IF at the tail of the branch must carry its own ELSE (ELSE pairs with the
        nearest unpaired IF) - recursively."""
        r = self.d(st.integers(0, 5))
        if r == 0 and fwd_ids:
            self.features.add("then_line")
            return ["line", ("L", self.d(st.sampled_from(fwd_ids)))]
        stmts = self.inline_stmts(self.d(st.integers(1, 3)), depth, fwd_ids)
        if depth > 0 and self.d(st.integers(0, 3)) == 0 and not (stmts and stmts[-1][0] in ("goto", "end", "stop")):
            stmts.append(self.if_stmt(depth - 1, fwd_ids, closed=closed))
            self.features.add("nested_if")
        elif self.d(st.integers(0, 9)) == 0 and stmts and stmts[-1][0] not in ("if",):
            stmts.append(["empty"])  # 'THEN A=1: ELSE ...' / a colon at the end of the line
            self.features.add("empty_statement")
        return ["stmts", stmts]

    def if_stmt(self, depth, fwd_ids, closed=False):
        c = self.cond()
        form = self.d(st.sampled_from(["plain", "plain", "else", "else", "elseif"]))
        if closed and form == "plain":
            form = "else"
        if form != "plain" and c[0] == "nz" and self.on("ifelse_bare_numeric"):
            c = ["cmp", "<>", c[1], ["num", "0", 0]]
        if form == "plain":
            return ["if", c, self.branch(depth, fwd_ids, closed=False), None]
        then = self.branch(depth, fwd_ids, closed=True)
        if form == "else":
            self.features.add("if_else")
            return ["if", c, then, self.branch(depth, fwd_ids, closed=closed)]
        # ELSE IF chain
        n = self.d(st.integers(1, 3))
        self.features.add("else_if_chain")
        final_else = self.d(st.booleans()) or closed
        if not final_else and self.on("elseif_needs_else"):
            final_else = True
        chain = None
        if final_else:
            chain = ["stmts", self.plain_stmts(fwd_ids)]
            self.features.add("else_if_chain_with_else")
        for _ in range(n):
            ci = self.cond()
            if ci[0] == "nz" and self.on("ifelse_bare_numeric"):
                ci = ["cmp", "<>", ci[1], ["num", "0", 0]]
            chain = ["stmts", [["if", ci, ["stmts", self.plain_stmts(fwd_ids)], chain]]]
        return ["if", c, then, chain]

    def plain_stmts(self, fwd_ids):
        stmts = [s for s in self.inline_stmts(self.d(st.integers(1, 2)), 0, fwd_ids) if s[0] != "__seq__"]
        return stmts or [self.simple()]

    # ----------------------------------------------------------------- blocks
    def block(self, depth, budget):
        """-> list of Line; jumps inside refer to ids of lines of this block."""
        n = self.d(st.integers(1, max(1, min(5, budget))))
        ids = [self.new_id() for _ in range(n)]
        out = []
        for i, lid in enumerate(ids):
            fwd = ids[i + 1 :]
            stmts = [self.marker(lid)]
            kind = self.d(st.integers(0, 11))
            if kind < 3:
                stmts += [self.simple() for _ in range(self.d(st.integers(0, 2)))]
            elif kind < 6:
                stmts.append(self.if_stmt(2, fwd))
            elif kind < 7 and fwd:
                stmts.append(["goto", ("L", self.d(st.sampled_from(fwd)))])
                self.features.add("goto_forward")
            elif kind < 8 and i > 0:
                # guarded backward jump
                self.counters += 1
                cv = "G%d" % (self.counters % 10)
                stmts.append(["let", ["var", cv], ["bin", "+", ["var", cv], ["num", "1", 1]], False])
                stmts.append(["if", ["cmp", "<", ["var", cv], ["num", "3", 3]], ["line", ("L", self.d(st.sampled_from(ids[:i])))], None])
                self.features.add("guarded_backward_jump")
            elif kind < 9 and depth > 0 and budget > 3:
                # multi-line FOR loop around a sub-block
                self.loopvars += 1
                v = LOOP_NAMES[self.loopvars % len(LOOP_NAMES)]
                step = self.d(st.sampled_from([None, None, ["num", "1", 1], ["num", "2", 2], ["neg", ["num", "1", 1]]]))
                lo, hi = self.d(st.integers(0, 2)), self.d(st.integers(1, 4))
                if step is not None and step[0] == "neg":
                    lo, hi = max(lo, hi), min(lo, hi)
                elif lo > hi:
                    lo, hi = hi, lo
                stmts.append(["for", v, ["num", str(lo), lo], ["num", str(hi), hi], step])
                out.append(Line(stmts, lid))
                inner = self.block(depth - 1, budget // 2)
                out += inner
                close = self.new_id()
                cl = [self.marker(close)]
                two = False
                if inner and inner[-1].stmts and inner[-1].stmts[-1][0] == "__open_for__":
                    pass
                cl.append(["next", [] if self.d(st.booleans()) else [v]])
                out.append(Line(cl, close))
                self.features.add("multi_line_for")
                if step is not None:
                    self.features.add("for_step")
                continue
            elif kind < 10 and fwd:
                k = self.d(st.sampled_from([2, 5, 8, 9, 10, 11, 12, 13, 15, 16, 17])) if self.scale else self.d(st.integers(1, min(3, len(fwd))))
                targets = [("L", t) for t in self.d(st.lists(st.sampled_from(fwd), min_size=k, max_size=k))]
                sel = self.selector(stmts)
                stmts.append(["on", sel, "GOTO", targets])
                self.features.add("on_goto")
            elif kind < 11 and self.subs:
                if self.d(st.booleans()):
                    stmts.append(["gosub", ("L", self.d(st.sampled_from(self.subs)))])
                else:
                    k = self.d(st.sampled_from([2, 5, 8, 9, 10, 11, 12, 13, 15, 16, 17])) if self.scale else self.d(st.integers(1, min(3, len(self.subs))))
                    targets = [("L", t) for t in self.d(st.lists(st.sampled_from(self.subs), min_size=k, max_size=k))]
                    stmts.append(["on", self.selector(stmts), "GOSUB", targets])
                    self.features.add("on_gosub")
                self.features.add("gosub")
            else:
                stmts.append(self.simple())
            out.append(Line(stmts, lid))
        return out

    def program(self):
        nsubs = self.d(st.integers(0, 2))
        self.subs = [self.new_id() for _ in range(nsubs)]
        init = [["let", ["var", v], ["num", str(x), x], False] for v, x in
                zip(["A", "B", "C"], [self.d(st.integers(0, 4)) for _ in range(3)])]
        first = self.new_id()
        lines = [Line(init, first)]
        lines += self.block(3 if self.scale else 2, self.max_lines)
        endid = self.new_id()
        lines.append(Line([self.marker(endid), ["print", [["e", ["var", "A"]], ["s", ";"], ["e", ["var", "B"]], ["s", ";"], ["e", ["var", "C"]], ["s", ";"], ["e", ["var", "T"]]]],
                           self.d(st.sampled_from([["end"], ["end"], ["stop"]]))], endid))
        for sid in self.subs:
            lines.append(Line([self.marker(sid), self.simple(), ["return"]], sid))
        # number the lines and resolve symbolic targets
        step = self.d(st.sampled_from([10, 10, 5, 1, 100]))
        start = self.d(st.sampled_from([10, 1, 100, 0]))
        if self.scale and len(lines) <= 30 and self.d(st.booleans()):
            step, start = 1000, 100  # five-digit line numbers
            self.features.add("scale_five_digit_line_numbers")
        if len(lines) >= 25:
            self.features.add("scale_25_or_more_lines")
        num = {}
        for i, ln in enumerate(lines):
            num[ln.lid] = start + i * step
        prog = []
        for ln in lines:
            prog.append([num[ln.lid], self.resolve(self.flatten_seq(ln.stmts), num)])
        for p in prog:
            self.fix_num(p)
        return prog

    def flatten_seq(self, stmts):
        out = []
        for s in stmts:
            if isinstance(s, list) and s and s[0] == "__seq__":
                out += self.flatten_seq(s[1])
            elif isinstance(s, list) and s and s[0] == "if":
                s = list(s)
                for bi in (2, 3):
                    if s[bi] is not None and s[bi][0] == "stmts":
                        s[bi] = ["stmts", self.flatten_seq(s[bi][1])]
                out.append(s)
            else:
                out.append(s)
        return out

    def resolve(self, x, num):
        if isinstance(x, tuple) and len(x) == 2 and x[0] == "L":
            return num[x[1]]
        if isinstance(x, list):
            return [self.resolve(y, num) for y in x]
        return x


@st.composite
def control_programs(draw, switches=frozenset(), max_lines=14):
    scale = draw(st.integers(0, 6)) == 0  # one program in seven is large: up to 40 lines, nesting one level deeper, longer ON lists
    pg = ProgGen(draw, switches, max_lines=40 if scale else max_lines)
    pg.scale = scale
    if scale:
        pg.features.add("scale_program")
    prog = pg.program()
    return {"prog": prog, "_meta": {"features": sorted(pg.features), "excluded": dict(pg.excluded) | dict(pg.g.excluded)}}
