"""Hypothesis-driven construction of Color BASIC ASTs.

Everything is *constructed* valid (no filtering): expressions are typed,
subscripts are in range, logical operators get integer operands, loops are
lexically nested and bounded.  `switches` are the generator switches of the
open findings in known_findings.json: each steers construction away from one
recorded defect shape and counts how often it did so."""
from fractions import Fraction

from hypothesis import strategies as st

from vf.cb import names

NUM_SPELLINGS = [
    ("0", 0), ("1", 1), ("2", 2), ("3", 3), ("5", 5), ("7", 7), ("10", 10), ("12", 12), ("100", 100), ("255", 255),
    ("7.", 7.0), ("007", 7), (".5", 0.5), ("0.25", 0.25), ("1.5", 1.5), ("2.75", 2.75), ("5E1", 50.0), ("1E2", 100.0),
    ("25E-1", 2.5), ("1.5E+1", 15.0), ("3.0", 3.0), ("0.125", 0.125), ("11", 11), ("13", 13), ("4", 4), ("6", 6), ("9", 9),
    ("1234567", 1234567), ("3.141593", 3.141593), ("16777216", 16777216), ("1E-3", 0.001), ("2.5E-2", 0.025), ("123456.75", 123456.75),
    # magnitudes that Python prints in exponent notation (below 1E-4, from 1E16)
    ("1.25E-5", 1.25e-05), ("1E-7", 1e-07), ("1E16", 1e16), ("2.5E+20", 2.5e20), (".00001234", 1.234e-05),
    ("1E-10", 1e-10), ("2.5E-10", 2.5e-10), ("6.02E-23", 6.02e-23), ("1.23456789E-5", 1.23456789e-05), ("1.5E-9", 1.5e-09), (".000000000125", 1.25e-10),
]
INT_SPELLINGS = [s for s in NUM_SPELLINGS if float(s[1]) == int(s[1]) and "E" not in s[0] and "." not in s[0]]
# Color BASIC accepts the two-character relational operators in either order
REL_OPS = ["=", "<>", "<", ">", "<=", ">=", "=<", "=>", "<=", ">="]
HEX_SPELLINGS = ["0", "1", "F", "1F", "FF", "100", "7FFF", "8000", "FFFF", "A5", "0F"]


class Counter(dict):
    def hit(self, k):
        self[k] = self.get(k, 0) + 1


class Gen:
    def __init__(self, draw, switches=frozenset(), *, convertible=True, device_fn=False, arrays=True, strings=True,
                 max_str=24, var_pool=None, int_vars=None, str_pool=None):
        self.draw = draw
        self.sw = frozenset(switches)
        self.excluded = Counter()
        self.labels = Counter()
        self.convertible = convertible
        self.device_fn = device_fn
        self.arrays = arrays
        self.strings = strings
        self.max_str = max_str
        self.real_vars = list(var_pool or ["A", "B", "C", "D", "X", "Y"])
        self.int_vars = list(int_vars or ["I", "J", "K", "N", "M2"])
        self.str_vars = list(str_pool or ["A", "B", "S", "T", "NM"])
        self.num_arrays = {}  # name -> bounds (list)
        self.str_arrays = {}
        self.used = set()
        self.n_conv = 0
        self.n_ops = 0
        self.precs = set()
        self.nested_fn = False
        self.odd_spelling = False
        self.in_ifelse_cond = False
        self._in_subscript = False

    # ------------------------------------------------------------- helpers
    def d(self, s):
        return self.draw(s)

    def choice(self, seq):
        return self.draw(st.sampled_from(list(seq)))

    def chance(self, num, den):
        return self.draw(st.integers(1, den)) <= num

    def on(self, switch):
        """True when the open finding's switch is active; counts the redirection."""
        if switch in self.sw:
            self.excluded.hit(switch)
            return True
        return False

    def conv_ok(self):
        """May a convertible function (INT VAL STR$ HEX$ INSTR STRING$ INKEY$ BUTTON JOYSTK POINT) be placed here?"""
        if not self.convertible:
            return False
        if self.in_ifelse_cond and self.on("no_convertible_in_ifelse_cond"):
            return False
        return True

    # ------------------------------------------------------------- leaves
    def num_lit(self, integer=False):
        if integer or self.chance(1, 2):
            sp, v = self.choice(INT_SPELLINGS)
        else:
            sp, v = self.choice(NUM_SPELLINGS)
        if sp != repr(v) and sp not in (str(v),):
            self.odd_spelling = True
        return ["num", sp, v]

    def hex_lit(self):
        self.odd_spelling = True
        return ["hex", self.choice(HEX_SPELLINGS)]

    def int_leaf(self):
        r = self.d(st.integers(0, 9))
        if r < 4:
            return self.num_lit(integer=True)
        if r < 5:
            return self.hex_lit()
        v = self.choice(self.int_vars)
        self.used.add(("n", v))
        return ["var", v]

    def num_leaf(self):
        r = self.d(st.integers(0, 11))
        if r < 4:
            return self.num_lit()
        if r < 5:
            return self.hex_lit()
        if r < 9 or not self.arrays:
            v = self.choice(self.real_vars + self.int_vars)
            self.used.add(("n", v))
            return ["var", v]
        return self.num_elem()

    def decl_array(self, string=False):
        """Pick (or create) an array and return (name, bounds)."""
        table = self.str_arrays if string else self.num_arrays
        if table and self.chance(2, 3):
            name = self.choice(sorted(table))
            return name, table[name]
        name = self.choice(["P", "Q", "R", "U2", "WW"] if not string else ["P", "G", "LN"])
        if name in table:
            return name, table[name]
        nd = 1 if self.on("implicit_arrays_1d") or self.chance(3, 4) else self.d(st.integers(2, 3))
        bounds = [10] * nd
        table[name] = bounds
        return name, bounds

    def subscript(self, bound):
        r = self.d(st.integers(0, 7))
        if r == 0 or bound == 0:
            return ["num", "0", 0]
        if r == 1:
            return ["num", str(bound), bound]
        if r >= 6 and not self._in_subscript:
            # a computed subscript kept in range by AND with 2^k-1 <= bound: variable, arithmetic, converted call, another array's element
            mask = 1
            while mask * 2 + 1 <= bound:
                mask = mask * 2 + 1
            self._in_subscript = True
            try:
                q = self.d(st.integers(0, 3))
                if q == 0:
                    inner = self.int_leaf()
                elif q == 1:
                    inner = ["par", self.integer(1)]
                elif q == 2 and self.conv_ok():
                    self.n_conv += 1
                    inner = ["fn", "INT", [self.num_leaf()]]
                elif self.arrays:
                    inner = self.num_elem()
                    self.labels.hit("subscript_is_array_element")
                else:
                    inner = self.int_leaf()
            finally:
                self._in_subscript = False
            self.labels.hit("computed_subscript")
            return ["bin", "AND", inner, ["num", str(mask), mask]]
        v = self.d(st.integers(0, bound))
        return ["num", str(v), v]

    def num_elem(self):
        name, bounds = self.decl_array(False)
        self.used.add(("na", name))
        return ["arr", name, [self.subscript(b) for b in bounds]]

    def str_elem(self):
        name, bounds = self.decl_array(True)
        self.used.add(("sa", name))
        return ["sarr", name, [self.subscript(b) for b in bounds]]

    # ------------------------------------------------------------- numeric expressions
    def op(self, sym):
        self.n_ops += 1
        self.precs.add({"+": 6, "-": 6, "*": 7, "/": 7, "^": 9, "AND": 3, "OR": 2, "NOT": 4, "NEG": 8}.get(sym, 5))

    def integer(self, depth):
        """Integer-valued expression (operand of AND/OR/NOT, subscripts, selectors)."""
        if depth <= 0 or self.chance(1, 3):
            return self.int_leaf()
        r = self.d(st.integers(0, 9))
        if r < 3:
            o = self.choice(["+", "-", "*"])
            self.op(o)
            return ["bin", o, self.integer(depth - 1), self.integer(depth - 1)]
        if r < 6:
            o = self.choice(["AND", "OR"])
            self.op(o)
            return ["bin", o, self.integer(depth - 1), self.integer(depth - 1)]
        if r < 7:
            self.op("NOT")
            return ["not", self.integer(depth - 1)]
        if r < 8:
            self.op("NEG")
            return ["neg", self.integer(depth - 1)]
        if r < 9:
            return ["par", self.integer(depth - 1)]
        return self.int_fn(depth - 1)

    def int_fn(self, depth):
        r = self.d(st.integers(0, 4))
        if r == 0 and self.strings:
            self.nested_fn = self.nested_fn or depth > 0
            return ["fn", "LEN", [self.string(depth, plain=True)]]
        if r == 1:
            return ["fn", "ABS", [self.integer(depth)]]
        if r == 2:
            return ["fn", "SGN", [self.integer(depth)]]
        if r == 3 and self.conv_ok():
            self.n_conv += 1
            return ["fn", "INT", [self.num(depth)]]
        return self.int_leaf()

    def num(self, depth):
        if depth <= 0 or self.chance(1, 4):
            return self.num_leaf()
        r = self.d(st.integers(0, 15))
        if r < 7:
            o = self.choice(["+", "-", "*", "/", "+", "-", "*"])
            self.op(o)
            rhs = self.num(depth - 1)
            if o == "/":
                rhs = self.nonzero(depth - 1)
            return ["bin", o, self.num(depth - 1), rhs]
        if r < 8:
            self.op("^")
            base = self.num_leaf()
            if base[0] == "neg":
                base = ["par", base]
            e = self.choice([["num", "2", 2], ["num", "3", 3], ["num", "0", 0], ["num", "1", 1]])
            return ["bin", "^", base, e]
        if r < 9:
            self.op("NEG")
            return ["neg", self.num(depth - 1)]
        if r < 10:
            return ["par", self.num(depth - 1)]
        if r < 12:
            o = self.choice(["AND", "OR"])
            self.op(o)
            return ["bin", o, self.integer(depth - 1), self.integer(depth - 1)]
        if r < 13:
            self.op("NOT")
            return ["not", self.integer(depth - 1)]
        return self.num_fn(depth - 1)

    def nonzero(self, depth):
        sp, v = self.choice([s for s in NUM_SPELLINGS if s[1] != 0])
        if self.chance(1, 2):
            return ["num", sp, v]
        # |x| + 1 is never zero
        return ["par", ["bin", "+", ["fn", "ABS", [self.num(depth)]], ["num", "1", 1]]]

    def num_fn(self, depth):
        names_ = ["ABS", "SGN", "INT", "SQR", "SIN", "COS", "ATN", "LEN", "ASC", "VAL", "INSTR", "FIX", "EXP", "LOG", "TAN"]
        if self.device_fn:
            names_ += ["BUTTON", "JOYSTK", "POINT", "PEEK", "RND", "ERNO"]
        f = self.choice(names_)
        if f == "JOYSTK" and self.on("no_joystk"):
            f = "BUTTON"
        if depth > 0:
            self.nested_fn = True
        if f == "FIX" and self.on("no_fix"):
            f = "ABS"
        if f in ("INT", "VAL", "INSTR", "BUTTON", "JOYSTK", "POINT"):
            if not self.conv_ok():
                f = "ABS"
            else:
                self.n_conv += 1
        if f in ("ABS", "SGN", "INT", "FIX", "SIN", "COS", "ATN"):
            return ["fn", f, [self.num(depth)]]
        if f == "ERNO":
            return ["fn", "ERNO", []]
        if f in ("PEEK", "RND"):
            # values outside the program's control: structural checks only (the reference interpreters leave the domain)
            return ["fn", f, [self.num(depth) if self.chance(1, 2) else self.integer(0)]]
        if f == "TAN":
            return ["fn", "TAN", [["bin", "/", self.num_lit(integer=True), ["num", "16", 16]]]]
        if f == "SQR":
            return ["fn", "SQR", [["fn", "ABS", [self.num(depth)]]]]
        if f == "EXP":
            return ["fn", "EXP", [self.choice([["num", "0", 0], ["num", "1", 1], ["num", "2", 2], ["neg", ["num", "1", 1]]])]]
        if f == "LOG":
            return ["fn", "LOG", [["bin", "+", ["fn", "ABS", [self.num(depth)]], ["num", "1", 1]]]]
        if not self.strings:
            return ["fn", "ABS", [self.num(depth)]]
        if f == "LEN":
            return ["fn", "LEN", [self.string(depth, plain=True)]]
        if f == "ASC":
            return ["fn", "ASC", [["scat", ["str", self.choice(["A", "Z", "b", "0"])], self.string(depth, plain=True)]]]
        if f == "VAL":
            return ["fn", "VAL", [["str", self.choice(["12", "3.5", "-4", "0", "", "X", "7E1", " 8"])]]]
        if f == "INSTR":
            return ["fn", "INSTR", [self.choice([["num", "1", 1], ["num", "2", 2], ["num", "3", 3]]), self.string(depth, plain=True),
                                    ["str", self.choice(["A", "B", "AB", "BA", " "])]]]
        if f in ("BUTTON", "JOYSTK"):
            return ["fn", f, [self.choice([["num", "0", 0], ["num", "1", 1], ["num", "2", 2], ["num", "3", 3]])]]
        if f == "POINT":
            return ["fn", "POINT", [self.integer(0), self.integer(0)]]
        raise AssertionError(f)

    # ------------------------------------------------------------- string expressions
    def str_lit(self):
        if self.max_str >= 40 and self.chance(1, 12):
            # literals longer than BASIC09's default 32 bytes, and up to the 255 Color BASIC allows
            n = self.choice([33, 40, 80, 81, 255])
            if n <= self.max_str:
                self.labels.hit("long_string_literal")
                return ["str", ("LONG TEXT 0123456789 " * 13)[:n]]
        if self.chance(1, 20):
            # characters that some line-splitting routines take for line ends although only CR and LF are (form feed, VT, NEL, U+2028 ...)
            self.labels.hit("string_literal_with_pseudo_line_end")
            return ["str", self.choice(["A\x0cB", "X\x0bY", "P\x85Q", "L\u2028M", "\x1cRUN ecb_play", "T\x1e", "\u2029"])]
        return ["str", self.choice(["", "A", "B", "AB", "BA", "A B", " ", "HELLO", "ABAB", "x", "BASIC09", "A,B", "IT'S"])]

    def string(self, depth, plain=False):
        """plain=True: the value must not contain a formatted number (it feeds LEN/MID$/...)."""
        if not self.strings:
            return self.str_lit()
        if depth <= 0 or self.chance(1, 3):
            r = self.d(st.integers(0, 6))
            if r < 3:
                return self.str_lit()
            if r < 6 or not self.arrays:
                v = self.choice(self.str_vars)
                self.used.add(("s", v))
                return ["svar", v]
            return self.str_elem()
        r = self.d(st.integers(0, 11))
        if depth > 0 and r >= 3:
            self.nested_fn = True
        if r < 3:
            self.op("+")
            return ["scat", self.string(depth - 1, plain), self.string(depth - 1, plain)]
        if r < 5:
            f = self.choice(["LEFT$", "RIGHT$"])
            return ["fn", f, [["scat", ["str", "AB"], self.string(depth - 1, True)], self.choice([["num", "1", 1], ["num", "2", 2], ["num", "3", 3], ["num", "40", 40]])]]
        if r < 6:
            return ["fn", "MID$", [["scat", ["str", "ABC"], self.string(depth - 1, True)], self.choice([["num", "1", 1], ["num", "2", 2], ["num", "3", 3]]),
                                   self.choice([["num", "1", 1], ["num", "2", 2], ["num", "9", 9]])]]
        if r < 7:
            return ["fn", "CHR$", [["bin", "+", ["num", "65", 65], ["fn", "ABS", [self.choice([["var", v] for v in self.int_vars] + [["num", "3", 3]])]]]]]
        if r < 8 and not plain and self.conv_ok():
            self.n_conv += 1
            return ["fn", "STR$", [self.num(depth - 1)]]
        if r < 9 and self.conv_ok():
            self.n_conv += 1
            return ["fn", "HEX$", [self.choice([["num", "255", 255], ["num", "10", 10], ["hex", "1F"], ["fn", "ABS", [["var", self.choice(self.int_vars)]]]])]]
        if r < 10 and self.conv_ok():
            self.n_conv += 1
            return ["fn", "STRING$", [self.choice([["num", "0", 0], ["num", "1", 1], ["num", "3", 3], ["num", "5", 5]]),
                                      ["scat", ["str", self.choice(["*", "AB", "-"])], self.string(depth - 1, True)]]]
        if r < 11 and self.device_fn and self.conv_ok():
            self.n_conv += 1
            return ["fn", "INKEY$", []]
        return self.str_lit()

    # ------------------------------------------------------------- conditions
    def cond(self, depth, allow_bare=True):
        r = self.d(st.integers(0, 11))
        if depth <= 0 or r < 5:
            if r % 5 == 4 and self.strings:
                return ["scmp", self.choice(REL_OPS), self.string(1, True), self.string(1, True)]
            return ["cmp", self.choice(REL_OPS), self.sumlevel(depth), self.sumlevel(depth)]
        if r < 7:
            self.op("AND")
            return ["band", self.cond(depth - 1, False), self.cond(depth - 1, False)]
        if r < 9:
            self.op("OR")
            return ["bor", self.cond(depth - 1, False), self.cond(depth - 1, False)]
        if r < 10:
            self.op("NOT")
            return ["bnot", self.cond(depth - 1, False)]
        if r < 11:
            return ["bpar", self.cond(depth - 1, False)]
        if allow_bare:
            x = self.bare_numeric(depth)
            if x[0] == "not":  # the tool refuses a bare numeric condition that starts with NOT ("IF NOT 5 THEN")
                x = ["par", x]
            return ["nz", x]
        return ["cmp", "<>", self.sumlevel(depth), ["num", "0", 0]]

    def sumlevel(self, depth):
        """Operand of a comparison: anything numeric; the renderer parenthesises low-precedence operators."""
        return self.num(min(depth, 2))

    def bare_numeric(self, depth):
        """A numeric condition without relational operators (IF A THEN ...)."""
        return self.num(min(depth, 2))

    # ------------------------------------------------------------- targets
    def num_target(self):
        if self.arrays and self.chance(1, 4):
            return self.num_elem()
        v = self.choice(self.real_vars)
        self.used.add(("n", v))
        return ["var", v]

    def str_target(self):
        if self.arrays and self.chance(1, 4):
            return self.str_elem()
        v = self.choice(self.str_vars)
        self.used.add(("s", v))
        return ["svar", v]


def init_values(draw, g, small=True):
    """Initial assignments for every pool variable: (statements, value dict)."""
    ints = [2, 3, 5, 7, -3, 0, 1, 11, 4, -1]
    reals = [2, 3, 5, 0.5, -2.25, 1.5, 7, 0, 10, -4]
    stmts = []
    vi = draw(st.permutations(ints))
    for name, v in zip(g.int_vars, vi):
        stmts.append(["let", ["var", name], lit_expr(v), False])
    vr = draw(st.permutations(reals))
    for name, v in zip(g.real_vars, vr):
        stmts.append(["let", ["var", name], lit_expr(v), False])
    if g.strings:
        vs = draw(st.permutations(["AB", "BA", "", "A B", "HELLO", "B"]))
        for name, v in zip(g.str_vars, vs):
            stmts.append(["let", ["svar", name], ["str", v], False])
    return stmts


def lit_expr(v):
    if v < 0:
        return ["neg", lit_expr(-v)]
    if float(v) == int(v):
        return ["num", str(int(v)), int(v)]
    return ["num", repr(float(v)), float(v)]
