"""Full-grammar program generator: every statement kind of the tool's grammar,
every presence pattern of optional operands of the device statements.

Programs produced here are *accepted* by construction (line references hit
existing lines, FOR/NEXT are lexically nested) but need not be meaningful to
run; the differential properties use the narrower generators of progs.py /
the slots of C03-C05."""
from hypothesis import strategies as st

from vf.gen import cbgen

DEVICE_FORMS = [
    "CLS", "CLS a", "HSCREEN", "HSCREEN a", "HCLS", "HCLS a", "WIDTH", "LOCATE", "ATTR", "ATTR B", "ATTR U", "ATTR BU", "ATTR UBU",
    "PALETTE", "PALETTE RGB", "PALETTE CMP", "RGB", "CMP", "HCOLOR f", "HCOLOR fb",
    "HCIRCLE", "HCIRCLE c", "HELLIPSE", "HELLIPSE c", "HARC", "HARC c",
    "HLINE abs PSET", "HLINE abs PRESET", "HLINE abs PSET B", "HLINE abs PRESET BF", "HLINE rel PSET", "HLINE rel PRESET B", "HLINE rel PSET BF",
    "HSET", "HSET c", "HRESET", "SET", "RESET", "HPAINT", "HPAINT c", "HPAINT cb", "HPRINT s", "HPRINT n", "HDRAW", "PLAY",
    "HBUFF", "HGET", "HPUT PSET", "HPUT AND", "HPUT NOT", "HPUT OR", "HPUT PRESET", "HPUT XOR", "SOUND",
    "POKE", "POKE 65496", "POKE 65497", "POKE &HFFD8", "POKE &HFFD9", "POKE 1024", "POKE &H400",
]


class FullGen:
    def __init__(self, draw, switches=frozenset(), operand_depth=1, temp_bias=0, **genkw):
        self.draw = draw
        self.sw = frozenset(switches)
        self.g = cbgen.Gen(draw, switches, **genkw)
        self.operand_depth = operand_depth
        self.temp_bias = temp_bias  # one operand in `temp_bias` is forced to need a temporary (0 = never)
        self.kinds = set()
        self.uses_hbuff = False
        self.big = False
        self.empty_data = draw(st.booleans()) if draw is not None else False  # the program will end in a DATA line with an empty item (switches the READ rewriting on)

    def d(self, s):
        return self.draw(s)

    def on(self, sw):
        return self.g.on(sw)

    def e(self):
        """numeric operand"""
        dep = self.d(st.integers(0, self.operand_depth))
        if self.temp_bias and self.g.convertible and self.d(st.integers(1, self.temp_bias)) == 1:
            self.g.n_conv += 1
            inner = self.g.num(dep)
            r = self.d(st.integers(0, 3))
            if r == 0:
                return ["fn", "INT", [inner]]
            if r == 1:
                return ["bin", "+", ["fn", "INT", [inner]], self.g.num_lit()]
            if r == 2:
                return ["bin", "*", ["fn", "VAL", [["str", self.d(st.sampled_from(["12", "3", "7.5"]))]]], ["fn", "ABS", [inner]]]
            return ["fn", "ABS", [["fn", "INT", [["bin", "-", inner, ["num", "1", 1]]]]]]
        x = self.g.num(dep)
        if self.d(st.integers(0, 11)) == 0:
            # an operand that starts with a unary operator
            x = ["neg", x] if self.d(st.booleans()) or x[0] == "neg" else ["not", self.g.integer(min(dep, 1))]
        return x

    def es(self):
        dep = self.d(st.integers(0, self.operand_depth))
        if self.temp_bias and self.g.convertible and self.d(st.integers(1, self.temp_bias)) == 1:
            self.g.n_conv += 1
            r = self.d(st.integers(0, 2))
            if r == 0:
                return ["scat", ["fn", "HEX$", [["num", "255", 255]]], self.g.string(dep, plain=True)]
            if r == 1:
                return ["fn", "STRING$", [["num", "2", 2], ["scat", ["str", "U"], self.g.string(dep, plain=True)]]]
            return ["scat", self.g.string(dep, plain=True), ["fn", "STR$", [self.g.num(0)]]]
        return self.g.string(dep)

    def conv_call(self):
        """A single call of a function the tool turns into a procedure call (numeric result)."""
        g = self.g
        g.n_conv += 1
        r = self.d(st.integers(0, 3))
        if r == 0:
            return ["fn", "INT", [g.num(self.d(st.integers(0, 1)))]]
        if r == 1:
            return ["fn", "VAL", [["str", self.d(st.sampled_from(["12", "3.5", "7"]))]]]
        if r == 2:
            return ["fn", "INSTR", [["num", "1", 1], g.string(0, plain=True), ["str", self.d(st.sampled_from(["A", "B"]))]]]
        return ["fn", "INT", [["bin", "/", g.num_leaf(), ["num", "2", 2]]]]

    def unary_operand(self):
        """An operand that *starts* with a unary operator and holds a convertible call (or a plain leaf)."""
        g = self.g
        inner = self.conv_call() if g.conv_ok() else g.num_leaf()
        if self.d(st.booleans()):
            return ["neg", inner]
        if inner[0] == "fn" and inner[1] == "INT":
            return ["not", ["fn", "INT", [g.int_leaf()]]]
        return ["neg", inner]

    def tail_let(self):
        """Assignment whose text ends in a chosen token class (literal spellings, hex, variable, call) or whose whole right-hand side
        is one convertible call - with and without the LET keyword.  Placed before ':', ELSE, a comment and the end of the line."""
        g = self.g
        self.kinds.add("tail_let")
        let = self.d(st.booleans())
        r = self.d(st.integers(0, 7))
        if r < 2 and g.conv_ok():
            self.kinds.add("let_whole_rhs_call" if let else "whole_rhs_call")
            if self.d(st.integers(0, 3)) == 0 and g.strings:
                g.n_conv += 1
                f = self.d(st.sampled_from(["STR$", "HEX$", "STRING$"]))
                nest = self.d(st.booleans())  # an operand that is itself a converted call, of the other result type where possible
                if nest:
                    self.kinds.add("whole_rhs_call_with_nested_call")
                    g.n_conv += 1
                call = {"STR$": ["fn", "STR$", [["fn", "INT", [g.num_leaf()]] if nest else g.num_leaf()]],
                        "HEX$": ["fn", "HEX$", [["fn", "VAL", [["str", "255"]]] if nest else ["num", "255", 255]]],
                        "STRING$": ["fn", "STRING$", [["fn", "INT", [["num", "3.5", 3.5]]] if nest else ["num", "3", 3],
                                                      ["fn", "STR$", [g.num_leaf()]] if nest else ["str", "*"]]]}[f]
                return ["let", g.str_target(), call, let]
            if g.strings and self.d(st.integers(0, 2)) == 0:
                self.kinds.add("whole_rhs_call_with_nested_call")
                g.n_conv += 2
                q = self.d(st.integers(0, 2))
                if q == 0:
                    return ["let", g.num_target(), ["fn", "VAL", [["fn", "STR$", [g.num_leaf()]]]], let]
                if q == 1:
                    return ["let", g.num_target(), ["fn", "INSTR", [["fn", "INT", [["num", "1.5", 1.5]]], g.string(0, plain=True), ["fn", "HEX$", [["num", "10", 10]]]]], let]
                return ["let", g.num_target(), ["fn", "INT", [["fn", "VAL", [["str", "7.5"]]]]], let]
            return ["let", g.num_target(), self.conv_call(), let]
        if r < 5:
            tail = g.num_lit()
        elif r < 6:
            tail = g.hex_lit()
        else:
            tail = g.num_leaf()
        if self.d(st.booleans()):
            return ["let", g.num_target(), tail, let]
        return ["let", g.num_target(), ["bin", self.d(st.sampled_from(["+", "-", "*"])), g.num(self.d(st.integers(0, 1))), tail], let]

    def scale_stmt(self):
        """One statement that needs ten or more temporaries of one kind (tmp_10 / tmp_10$ ...), or a READ with ten or more numeric targets."""
        g = self.g
        k = self.d(st.integers(10, 16))
        r = self.d(st.integers(0, 4))
        self.kinds.add("scale_statement_%d" % r)
        if r == 4 and g.convertible:
            # one converted call whose own text is longer than a BASIC09 source line (255): INT of a sum of 60-90 operands
            g.n_conv += 1
            e_ = ["var", g.real_vars[0]]
            for i in range(self.d(st.integers(60, 90))):
                e_ = ["bin", self.d(st.sampled_from(["+", "-"])), e_, ["var", g.real_vars[i % 4]]]
            return ["let", g.num_target(), ["bin", "+", ["num", "1", 1], ["fn", "INT", [e_]]], False]
        leafs = [["var", v] for v in g.real_vars[:4]] + [["num", str(i), i] for i in (1, 2, 3)]
        if r == 0:
            items = []
            for i in range(k):
                items += [["e", list(self.d(st.sampled_from(leafs)))], ["s", self.d(st.sampled_from([";", ";", ","]))]]
            return ["print", items[:-1]]
        if r == 1 and g.convertible:
            g.n_conv += k
            e_ = ["fn", "INT", [list(self.d(st.sampled_from(leafs)))]]
            for i in range(k - 1):
                if self.d(st.booleans()):
                    e_ = ["bin", "+", e_, ["fn", "INT", [list(self.d(st.sampled_from(leafs)))]]]
                else:
                    e_ = ["bin", "+", e_, ["fn", "VAL", [["str", str(i)]]]]
            return ["let", g.num_target(), e_, False]
        if r == 2 and g.strings and g.convertible:
            g.n_conv += k
            e_ = ["fn", "STR$", [["num", "0", 0]]]
            for i in range(1, k):
                e_ = ["scat", e_, ["fn", self.d(st.sampled_from(["STR$", "HEX$"])), [["num", str(i), i]]]]
            return ["let", g.str_target(), e_, False]
        self.kinds.add("read")
        self.empty_data = True
        tg = []
        for i in range(k):
            v = self.d(st.sampled_from(g.real_vars))
            g.used.add(("n", v))
            tg.append(["var", v])
        return ["read", tg]

    def first_operand(self):
        """Optional operand of CLS/HSCREEN/HCLS: the tool drops one that starts with a unary operator (open finding)."""
        x = self.e()
        if x[0] in ("neg", "not") and self.on("cls_operand_no_leading_unary"):
            x = ["par", x]
        return x

    def width_operand(self):
        return self.e()

    def device(self, form=None):
        form = form or self.d(st.sampled_from(DEVICE_FORMS))
        self.kinds.add("dev_" + form.split()[0])
        w = form.split()
        k = w[0]
        e, es = self.e, self.es
        if k in ("CLS", "HSCREEN", "HCLS"):
            return ["dev", k, {"a": self.first_operand() if len(w) > 1 else None}], form
        if k == "WIDTH":
            return ["dev", "WIDTH", {"a": self.width_operand()}], form
        if k == "LOCATE":
            return ["dev", "LOCATE", {"x": e(), "y": e()}], form
        if k == "ATTR":
            return ["dev", "ATTR", {"f": e(), "b": e(), "flags": list(w[1]) if len(w) > 1 else []}], form
        if form == "PALETTE":
            return ["dev", "PALETTE", {"r": e(), "c": e()}], form
        if form in ("PALETTE RGB", "PALETTE CMP", "RGB", "CMP"):
            return ["dev", form, {}], form
        if k == "HCOLOR":
            return ["dev", "HCOLOR", {"f": e(), "b": e() if w[1] == "fb" else None}], form
        if k in ("HCIRCLE", "HELLIPSE", "HARC"):
            o = {"x": e(), "y": e(), "r": e(), "c": e() if len(w) > 1 else None, "form": {"HCIRCLE": "circle", "HELLIPSE": "ellipse", "HARC": "arc"}[k]}
            if k != "HCIRCLE":
                o["hw"] = e()
            if k == "HARC":
                o["s"] = e()
                o["e"] = e()
            return ["dev", "HCIRCLE", o], form
        if k == "HLINE":
            o = {"x1": e(), "y1": e(), "mode": w[2], "box": w[3] if len(w) > 3 else None}
            if w[1] == "abs":
                o["x0"] = e()
                o["y0"] = e()
            return ["dev", "HLINE", o], form
        if k in ("HSET", "HRESET", "SET", "RESET"):
            o = {"x": e(), "y": e()}
            if k == "SET" or len(w) > 1:
                o["c"] = e()
            return ["dev", k, o], form
        if k == "HPAINT":
            o = {"x": e(), "y": e()}
            if len(w) > 1:
                o["c"] = e()
                if w[1] == "cb":
                    o["b"] = e()
            return ["dev", "HPAINT", o], form
        if k == "HPRINT":
            numeric = w[1] == "n" and not self.on("hprint_string_only")
            return ["dev", "HPRINT", {"x": e(), "y": e(), "t": e() if numeric else es()}], form
        if k in ("HDRAW", "PLAY"):
            return ["dev", k, {"s": es()}], form
        if k == "HBUFF":
            self.uses_hbuff = True
            return ["dev", "HBUFF", {"n": e(), "size": e()}], form
        if k == "HGET":
            return ["dev", "HGET", {"x0": e(), "y0": e(), "x1": e(), "y1": e(), "n": e()}], form
        if k == "HPUT":
            return ["dev", "HPUT", {"x0": e(), "y0": e(), "x1": e(), "y1": e(), "n": e(), "action": w[1]}], form
        if k == "SOUND":
            return ["sound", e(), e()], form
        if k == "POKE":
            if len(w) > 1:
                a = ["num", w[1], int(w[1])] if w[1].isdigit() else ["hex", w[1][2:]]
                return ["poke", a, e()], form
            return ["poke", ["bin", "+", ["num", "1024", 1024], self.g.integer(0)], e()], form
        raise AssertionError(form)

    # ------------------------------------------------------------------ other statements
    def print_stmt(self):
        n = self.d(st.integers(0, 4))
        if self.big and self.d(st.booleans()):
            n = self.d(st.integers(10, 18))  # ten or more numeric items: string temporaries beyond tmp_9$
            self.kinds.add("scale_print_many_items")
        items = []
        if self.d(st.integers(0, 7)) == 0:
            # a juxtaposed string literal right after an item that starts with a unary operator: PRINT "A="-A"B"
            items = [["e", ["str", "A="]], ["e", ["neg", self.g.num_leaf()] if self.d(st.booleans()) else ["not", self.g.int_leaf()]], ["e", ["str", "B"]]]
            self.kinds.add("print_juxtaposition_after_unary")
        for i in range(n):
            r = self.d(st.integers(0, 6))
            if r < 2:
                items.append(["s", self.d(st.sampled_from([";", ","]))])
            elif r == 6 and self.d(st.booleans()):
                self.kinds.add("print_unary_operand")
                items.append(["e", self.unary_operand()])
            elif r == 6:
                self.kinds.add("print_tab")
                items.append(["e", ["fn", "TAB", [self.e()]]])
            else:
                items.append(["e", self.e() if self.d(st.booleans()) else self.es()])
                if self.d(st.booleans()) and i < n - 1:
                    items.append(["s", self.d(st.sampled_from([";", ","]))])
        # juxtaposed items must not glue a number to a following identifier: separate expression items
        fixed = []
        for it in items:
            if fixed and fixed[-1][0] == "e" and it[0] == "e":
                # juxtaposition is kept only where no token can glue: one of the two neighbours is a string literal
                if fixed[-1][1][0] == "str" or it[1][0] == "str":
                    self.kinds.add("print_juxtaposition")
                else:
                    fixed.append(["s", ";"])
            fixed.append(it)
        r = self.d(st.integers(0, 9))
        if r == 0:
            self.kinds.add("printat_without_list")
            return ["printat", self.e(), None]
        if r < 3:
            self.kinds.add("printat")
            return ["printat", self.e(), fixed]
        self.kinds.add("print")
        return ["print", fixed]

    def data_stmt(self):
        self.kinds.add("data")
        n = self.d(st.integers(1, 4))
        if self.big and self.d(st.booleans()):
            n = self.d(st.integers(16, 24))
            self.kinds.add("scale_data_many_items")
        items = []
        for _ in range(n):
            r = self.d(st.integers(0, 9))
            if r < 3:
                sp, v = self.d(st.sampled_from(cbgen.NUM_SPELLINGS))
                items.append(["n", sp, v])
            elif r < 5:
                items.append(["q", self.d(st.sampled_from(["", "A", "A B", " X ", "HELLO, WORLD", "RUN x", "a:b", "FF\x0cRUN ecb_play", "LS\u2028x"]))])
            elif r < 7:
                items.append(["u", self.d(st.sampled_from(["ABC", "A B", "X  ", "HELLO WORLD", "RED", "Z9 ", "DON'T", "IT'S RUN ecb_play", "'Q"]))])
            elif r < 8:
                items.append(["h", self.d(st.sampled_from(cbgen.HEX_SPELLINGS))])
            else:
                items.append(["e"])
        if any(i[0] == "e" for i in items) and any(i[0] == "h" for i in items) and self.on("no_hex_data_with_empty_item"):
            items = [i for i in items if i[0] != "h"] or [["e"]]
        return ["data", items]

    def target(self):
        return self.g.num_target() if self.d(st.booleans()) else self.g.str_target()

    def rw_target(self, read=False):
        """READ / INPUT / VARPTR operand.  Open findings: such operands are never visited, so subscripts there hold no convertible functions and
        no other arrays while those findings are open - except for numeric READ targets of a program with an empty DATA item: the tool rewrites
        those READs into RUN ecb_read_filter(...) statements, which are visited like any other."""
        numeric = self.d(st.booleans())
        if read and numeric and self.empty_data:
            self.kinds.add("read_target_via_filter")
            return self.g.num_target()
        saved = (self.g.convertible, self.temp_bias)
        if self.on("no_convertible_in_read_input_subscripts"):
            self.g.convertible, self.temp_bias = False, 0
        if "rw_targets_also_top_level" in self.sw:
            self.g._in_subscript = True  # open finding: what occurs only inside a READ / INPUT target is never declared - literal subscripts there
        t = self.g.num_target() if numeric else self.g.str_target()
        self.g._in_subscript = False
        self.g.convertible, self.temp_bias = saved
        return t

    def misc(self):
        r = self.d(st.integers(0, 15))
        if r >= 14:
            return self.tail_let()
        g = self.g
        if r == 0:
            self.kinds.add("read")
            return ["read", [self.rw_target(read=True) for _ in range(self.d(st.integers(1, 3)))]]
        if r == 1:
            self.kinds.add("input")
            prompt = self.d(st.sampled_from([None, "NAME", "", "A B", "X?"]))
            return ["input", prompt, [self.rw_target() for _ in range(self.d(st.integers(1, 3)))], self.d(st.booleans())]
        if r == 2:
            return self.data_stmt()
        if r == 3:
            self.kinds.add("rem")
            return ["rem", self.d(st.sampled_from([" HELLO", "", " a:b", " RUN ecb_x", ' "quoted" text', " IT'S", " PAGE\x0cBREAK", " NEL\x85 here"])), self.d(st.sampled_from(["REM", "'"]))]
        if r == 4:
            self.kinds.add("clear")
            return ["clear", self.d(st.sampled_from([None, ["num", "200", 200], ["num", "1000", 1000]]))]
        if r == 5:
            self.kinds.add("single_kw")
            return [self.d(st.sampled_from(["restore", "tron", "troff"]))]
        if r == 6:
            self.kinds.add("let_kw")
            return ["let", g.num_target(), g.num(2), True]
        if r == 7:
            self.kinds.add("str_assign")
            return ["let", g.str_target(), g.string(2), self.d(st.booleans())]
        if r == 8:
            self.kinds.add("varptr")
            return ["let", g.num_target(), ["varptr", self.rw_target()], False]  # VARPTR operands share the READ / INPUT findings (never visited)
        if r < 11:
            return self.print_stmt()
        self.kinds.add("num_assign")
        return ["let", g.num_target(), g.num(2), False]


def add_layout(draw, case, switches, key="source", one_in=3):
    """One case in `one_in` carries its program text in a layout drawn boundary by boundary (0-2 blanks, ?/PRINT, line ends, empty
    lines, NUL, blanks inside literals) instead of the canonical one.  C08 says the layout cannot matter, so every oracle stays valid;
    what changes is which spellings of each construct reach the translator."""
    if draw(st.integers(1, one_in)) != 1:
        return case
    from vf.cb import render

    L = render.DrawnLayout(draw, st)
    case[key] = render.render(case["prog"], layout=L, paren_unary="paren_unary" in switches, canonical_clear="clear_canonical_layout" in switches)
    case.setdefault("_meta", {})["drawn_layout"] = True
    return case


def _append_last(stmts, new):
    """Append `new` as the very last statement of the line (inside the last branch of a trailing IF).  False when the line cannot take it."""
    last = stmts[-1]
    if last[0] == "if":
        branch = last[3] if last[3] is not None else last[2]
        if branch[0] != "stmts":
            return False
        return _append_last(branch[1], new)
    if last[0] in ("rem", "data") or (last[0] == "let" and len(last) > 4):
        return False
    stmts.append(new)
    return True


@st.composite
def full_programs(draw, switches=frozenset(), max_lines=10, operand_depth=1, with_control=True, device_fn=True, n_err=None, temp_bias=0):
    """-> dict(prog, meta).  Line references always hit existing lines."""
    fg = FullGen(draw, switches, operand_depth=operand_depth, device_fn=device_fn, temp_bias=temp_bias, max_str=255)
    g = fg.g
    n = draw(st.integers(1, max_lines))
    step = draw(st.sampled_from([10, 10, 1, 7, 100]))
    start = draw(st.sampled_from([10, 1, 0, 100, 5]))
    nums = [start + i * step for i in range(n)]
    big = draw(st.integers(0, 11)) if max_lines >= 4 else 99
    if big == 0:
        # scale: many lines with five-digit numbers
        fg.kinds.add("scale_many_lines")
        n = draw(st.integers(16, 28))
        start, step = 100, 1000
        nums = [start + i * step for i in range(n)]
    elif big == 1:
        # scale: line numbers that are prefixes of one another
        fg.kinds.add("scale_prefix_line_numbers")
        nums = sorted(d_ * 10 ** k_ for d_ in (1, 2, 3) for k_ in range(5))[: draw(st.integers(8, 15))]
        n, step, start = len(nums), 1, nums[0]
    fg.big = big in (0, 1, 2)
    lines = []
    open_loops = []
    dim_done = False
    n_onerr = n_onbrk = 0
    nest_at = draw(st.integers(0, 3 * n)) if with_control else -1  # one program in three gets a loop nest closed in a drawn style
    for i, ln in enumerate(nums):
        if i == nest_at and not open_loops:
            fg.kinds.add("loop_nest")
            depth_ = draw(st.integers(2, 3))
            vs = draw(st.sampled_from([["N%d" % q for q in range(3)], ["NA", "N", "N1"], ["N", "N2", "NN"]]))[:depth_]  # names that are prefixes of one another
            stmts = [["for", v, g.num(0), g.num(0), None] for v in vs]
            stmts.append(fg.misc())
            if stmts[-1][0] in ("rem", "data"):
                stmts[-1] = ["let", ["var", "A"], ["num", "1", 1], False]
            opened = list(vs)
            while opened:
                k = draw(st.integers(0, len(opened)))
                if k == 0:
                    stmts.append(["next", []])
                    opened.pop()
                else:
                    stmts.append(["next", [opened.pop() for _ in range(k)]])
                    if k >= 2:
                        fg.kinds.add("next_list")
            split = draw(st.integers(1, len(stmts)))
            lines.append([ln, stmts[:split]])
            if stmts[split:]:
                lines.append([ln + max(1, step // 2) if step > 1 else ln, stmts[split:]])
                if step == 1:
                    lines[-2][1] += lines[-1][1]
                    lines.pop()
            continue
        k = draw(st.integers(1, 3))
        stmts = []
        for _ in range(k):
            r = draw(st.integers(0, 19))
            if r < 5:
                s, form = fg.device()
                stmts.append(s)
            elif r < 11:
                stmts.append(fg.misc())
            elif r < 12 and with_control:
                fg.kinds.add("goto")
                stmts.append([draw(st.sampled_from(["goto", "gosub"])), draw(st.sampled_from(nums))])
            elif r < 13 and with_control:
                fg.kinds.add("on_go")
                stmts.append(["on", fg.e() if draw(st.integers(0, 2)) == 0 else g.integer(1), draw(st.sampled_from(["GOTO", "GOSUB"])),
                              draw(st.lists(st.sampled_from(nums), min_size=1, max_size=12 if fg.big else 4))])
            elif r < 14 and with_control and len(open_loops) < 3:
                fg.kinds.add("for")
                v = ["L2", "L", "LL"][len(open_loops)]
                open_loops.append(v)
                stmts.append(["for", v, g.num(1), g.num(1), draw(st.sampled_from([None, None, ["num", "2", 2], ["neg", ["num", "1", 1]], "e"]))])
                if stmts[-1][4] == "e":
                    stmts[-1][4] = fg.e()
            elif r < 15 and open_loops:
                fg.kinds.add("next")
                if len(open_loops) >= 2 and draw(st.booleans()):
                    b, a = open_loops.pop(), open_loops.pop()
                    stmts.append(["next", [b, a]])
                else:
                    v = open_loops.pop()
                    stmts.append(["next", [] if draw(st.booleans()) else [v]])
            elif r < 16 and with_control:
                fg.kinds.add("single_kw")
                stmts.append([draw(st.sampled_from(["return", "end", "stop"]))])
            elif r < 17 and with_control and (n_err is None or n_onerr + n_onbrk < n_err):
                if draw(st.booleans()) and n_onerr == 0:
                    n_onerr += 1
                    fg.kinds.add("on_err")
                    stmts.append(["onerr", draw(st.sampled_from(nums))])
                elif n_onbrk == 0:
                    n_onbrk += 1
                    fg.kinds.add("on_brk")
                    stmts.append(["onbrk", draw(st.sampled_from(nums))])
            elif r < 18 and not dim_done and i == 0:
                dim_done = True
                fg.kinds.add("dim")
                dims = []
                for nm in draw(st.lists(st.sampled_from(["DA", "DB", "DC", "DD"]), min_size=1, max_size=3, unique=True)):
                    kind = draw(st.sampled_from(["arr", "sarr", "var", "svar"]))
                    nd = draw(st.integers(1, 3))
                    bounds = [(["d", draw(st.integers(0, 12))] if draw(st.integers(0, 3)) else ["h", draw(st.sampled_from(["A", "1F", "3"]))]) for _ in range(nd)]
                    dims.append([nm, kind, bounds if kind in ("arr", "sarr") else []])
                    if kind == "arr":
                        g.num_arrays[nm] = [b[1] if b[0] == "d" else int(b[1], 16) for b in bounds]
                    elif kind == "sarr":
                        g.str_arrays[nm] = [b[1] if b[0] == "d" else int(b[1], 16) for b in bounds]
                stmts.append(["dim", dims])
            elif with_control:
                # IF in its forms; an IF is the last statement of its line
                fg.kinds.add("if")
                c = g.cond(2)
                form = draw(st.sampled_from(["plain", "line", "else", "elseline", "elseif", "line_elseif"]))
                def one():
                    out_ = []
                    for _q in range(draw(st.sampled_from([1, 1, 1, 2]))):
                        r_ = draw(st.integers(0, 10))
                        if r_ < 4:
                            s_ = fg.misc()
                        elif r_ < 6:
                            s_ = fg.device()[0]
                        elif r_ < 8:
                            s_ = fg.tail_let()
                        elif r_ == 8:
                            fg.kinds.add("jump_in_branch")
                            s_ = [draw(st.sampled_from(["goto", "gosub", "gosub"])), draw(st.sampled_from(nums))]
                        elif r_ == 9:
                            fg.kinds.add("on_go_in_branch")
                            s_ = ["on", fg.e() if draw(st.booleans()) else g.integer(1), draw(st.sampled_from(["GOTO", "GOSUB"])),
                                  draw(st.lists(st.sampled_from(nums), min_size=1, max_size=3))]
                        else:
                            fg.kinds.add("single_kw_in_branch")
                            s_ = [draw(st.sampled_from(["return", "end", "stop", "restore", "tron", "troff"]))]
                        if s_[0] in ("rem", "data"):  # REM / unquoted DATA would swallow a following ELSE
                            s_ = ["let", ["var", "B"], ["num", "2", 2], False]
                        out_.append(s_)
                    return out_

                if form != "plain" and form != "line":
                    g.in_ifelse_cond = True
                    c = g.cond(2, allow_bare=not g.on("ifelse_bare_numeric"))
                    g.in_ifelse_cond = False
                if form == "plain":
                    stmts.append(["if", c, ["stmts", one()], None])
                elif form == "line":
                    stmts.append(["if", c, ["line", draw(st.sampled_from(nums))], None])
                elif form == "else":
                    stmts.append(["if", c, ["stmts", one()], ["stmts", one()]])
                elif form == "elseline":
                    stmts.append(["if", c, ["line", draw(st.sampled_from(nums))], ["line", draw(st.sampled_from(nums))]])
                else:
                    fg.kinds.add("else_if")
                    fin = ["stmts", one()] if (draw(st.booleans()) or g.on("elseif_needs_else")) else None
                    if fin is not None and draw(st.integers(0, 3)) == 0:
                        fin = ["line", draw(st.sampled_from(nums))]
                    then = ["line", draw(st.sampled_from(nums))] if form == "line_elseif" else ["stmts", one()]
                    # one to three ELSE IF arms, each with a statement body or a bare line number
                    arms = draw(st.sampled_from([1, 1, 2, 3]))
                    if arms > 1:
                        fg.kinds.add("else_if_chain_%d" % arms)
                    tail = fin
                    for _a in range(arms):
                        g.in_ifelse_cond = True
                        ck = g.cond(1, allow_bare=not g.on("ifelse_bare_numeric"))
                        g.in_ifelse_cond = False
                        thenk = ["line", draw(st.sampled_from(nums))] if draw(st.integers(0, 2)) == 0 else ["stmts", one()]
                        tail = ["stmts", [["if", ck, thenk, tail]]]
                    stmts.append(["if", c, then, tail])
                break
            else:
                stmts.append(fg.misc())
        if draw(st.integers(0, 24)) == 0 and stmts and stmts[-1][0] not in ("if", "rem"):
            stmts.append(fg.scale_stmt())
        if draw(st.integers(0, 14)) == 0 and stmts and not any(s_[0] == "rem" for s_ in stmts):
            # an empty statement: '::', a colon at the end of the line, a colon in front of the first statement
            stmts.insert(draw(st.integers(0, len(stmts))) if stmts[-1][0] != "if" else draw(st.integers(0, len(stmts) - 1)), ["empty"])
            fg.kinds.add("empty_statement")
        if not stmts:
            stmts.append(["rem", " empty", "REM"])
        # REM swallows the rest of the line; DATA ends at ':' - keep REM last
        for q, s in enumerate(stmts[:-1]):
            if s[0] == "rem":
                stmts[q] = ["let", ["var", "A"], ["num", "1", 1], False]
        r_tail = draw(st.integers(0, 11))
        if r_tail == 0 and g.strings and _append_last(stmts, ["let", g.str_target(), ["str", draw(st.sampled_from(["OPEN", "A B ", "", "x", "IT'S"]))], draw(st.booleans()), "open"]):
            fg.kinds.add("open_string_literal")
        elif r_tail == 1 and _append_last(stmts, ["rem", draw(st.sampled_from([" note", "", " a:b", " IT'S"])), "'", "nocolon"]):
            fg.kinds.add("apostrophe_comment_without_colon")
        lines.append([ln, stmts])
        if draw(st.integers(0, 39)) == 0 and step > 1 and not fg.big:
            # a comment line close to Color BASIC's line length limit, with runs of blanks and blanks at both ends (all content)
            fg.kinds.add("scale_long_comment")
            lines.append([ln + 1, [["rem", ("  COL1   COL2    COL3 " * 12)[:draw(st.sampled_from([200, 238, 241, 244]))] + " ", draw(st.sampled_from(["REM", "'"]))]]])
    # a READ somewhere + an empty DATA item switches on the tool's READ/DATA patching (string temporaries, ecb_read_filter)
    if "read" in fg.kinds and (fg.empty_data or draw(st.booleans())):
        fg.kinds.add("read_with_empty_data_item")
        tail_ln = nums[-1] + step if not open_loops else nums[-1] + 2 * step
        lines.append([tail_ln + step, [["data", [["e"], ["n", "1", 1], ["q", "Z"]]]]])
    # close loops that are still open so FOR/NEXT stay lexically nested
    if open_loops:
        last = nums[-1] + step
        lines.append([last, [["next", [v]] for v in reversed(open_loops)]])
        lines.sort(key=lambda l: l[0])
    meta = {"kinds": sorted(fg.kinds), "excluded": dict(g.excluded), "uses_hbuff": fg.uses_hbuff, "n_conv": g.n_conv,
            "nums": nums, "n_onerr": n_onerr, "n_onbrk": n_onbrk}
    return {"prog": lines, "_meta": meta}
