"""Thin access layer to the code under test (always /repo's working tree)."""
import glob
import io
import os
import sys
import tempfile
import contextlib

REPO = os.environ.get("VERIF_REPO", "/repo")


def _import_tool():
    from coco.b09 import compiler  # noqa
    from coco.b09.configs import CompilerConfigs, StringConfigs  # noqa

    return compiler


def documented_refusals():
    """Exception classes the tool documents as refusals of an input."""
    import parsimonious.exceptions as pe
    import pydantic
    from coco.b09 import compiler, visitors

    return (
        pe.ParseError,  # includes IncompleteParseError
        compiler.ParseError,
        visitors.LineNumberTooLargeException,
        pydantic.ValidationError,
    )


def is_internal_error(exc):
    import parsimonious.exceptions as pe

    if isinstance(exc, pe.VisitationError):
        return True
    return not isinstance(exc, documented_refusals())


def convert(src, **opts):
    """convert() with compiler_configs given as a plain dict name->size."""
    compiler = _import_tool()
    from coco.b09.configs import CompilerConfigs, StringConfigs

    opts = dict(opts)
    sc = opts.pop("string_configs", None)
    share = opts.pop("share_config", False)
    if sc is not None:
        if share:
            # the caller keeps one configuration object and passes it to every conversion of the process (equal option *values* every time)
            key = repr(sorted(sc.items()))
            if key not in _SHARED_CONFIGS:
                _SHARED_CONFIGS[key] = CompilerConfigs(string_configs=StringConfigs(strname_to_size=dict(sc)))
            opts["compiler_configs"] = _SHARED_CONFIGS[key]
        else:
            opts["compiler_configs"] = CompilerConfigs(string_configs=StringConfigs(strname_to_size=dict(sc)))
    return compiler.convert(src, **opts)


_SHARED_CONFIGS = {}


def try_convert(src, **opts):
    """-> ('ok', text) | ('refused', ExcName) | ('internal', 'ExcName: msg')"""
    try:
        return "ok", convert(src, **opts)
    except RecursionError as e:
        return "internal", "RecursionError"
    except Exception as e:  # noqa
        if is_internal_error(e):
            inner = e
            import parsimonious.exceptions as pe

            if isinstance(e, pe.VisitationError) and e.__context__ is not None:
                inner = e.__context__
            return "internal", "%s(%s): %s" % (type(e).__name__, type(inner).__name__, str(inner)[:200])
        return "refused", type(e).__name__


def example_programs():
    out = []
    for p in sorted(glob.glob(os.path.join(REPO, "examples", "*", "*.bas"))):
        with open(p) as f:
            out.append((os.path.relpath(p, REPO), f.read()))
    return out


def ecb_text():
    with open(os.path.join(REPO, "coco", "resources", "ecb.b09")) as f:
        return f.read()


class _Buf:
    """A text-mode stand-in for sys.stdin/stdout exposing `.buffer`."""

    def __init__(self, data=b""):
        self.buffer = io.BytesIO(data)
        self.name = "<stream>"

    def write(self, s):
        pass

    def flush(self):
        pass


class _Sink(io.StringIO):
    """StringIO that also offers the `.buffer` the decoders' argparse defaults touch."""

    def __init__(self):
        super().__init__()
        self.buffer = io.BytesIO()


@contextlib.contextmanager
def quiet():
    """Silence stdout/stderr chatter of the decoders (text level)."""
    old_out, old_err = sys.stdout, sys.stderr
    sys.stdout, sys.stderr = _Sink(), _Sink()
    try:
        yield
    finally:
        sys.stdout, sys.stderr = old_out, old_err


def scratch_dir():
    base = os.environ.get("VERIF_SCRATCH") or tempfile.gettempdir()
    return tempfile.TemporaryDirectory(prefix="vf-", dir=base)
