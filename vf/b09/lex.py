"""Tokeniser for BASIC09 source text (the subset the tool emits and the
bundled library uses).  Case-insensitive keywords; identifiers keep their
spelling.  Comments: `(* ...` and `REM ...` run to the end of the line."""
import re


class LexError(Exception):
    pass


TOKEN_RE = re.compile(
    r"""
    (?P<ws>[ \t]+)
  | (?P<comment>\(\*.*$)
  | (?P<str>"[^"\r\n]*")
  | (?P<badstr>"[^"\r\n]*$)
  | (?P<hex>\$[0-9A-Fa-f]+)
  | (?P<num>(?:\d+\.\d*|\.\d+|\d+)(?:[eE][+-]?\d+)?)
  | (?P<ident>[A-Za-z_][A-Za-z0-9_]*\$?(?:\.[A-Za-z_][A-Za-z0-9_]*)*)
  | (?P<op>:=|<>|<=|>=|=>|=<|\*\*|[-+*/^=<>(),;:\\#\[\]])
    """,
    re.VERBOSE,
)


class Tok:
    __slots__ = ("kind", "text", "pos")

    def __init__(self, kind, text, pos):
        self.kind = kind
        self.text = text
        self.pos = pos

    @property
    def up(self):
        return self.text.upper()

    def __repr__(self):
        return "%s:%s" % (self.kind, self.text)


def tokenize_line(line):
    """-> list of Tok (kinds: str hex num ident op comment)."""
    toks = []
    pos = 0
    n = len(line)
    while pos < n:
        m = TOKEN_RE.match(line, pos)
        if not m:
            raise LexError("unexpected character %r at column %d in %r" % (line[pos], pos, line[:120]))
        kind = m.lastgroup
        text = m.group(kind)
        pos = m.end()
        if kind == "ws":
            continue
        if kind == "badstr":
            raise LexError("unterminated string literal in %r" % line[:120])
        if kind == "ident" and text.upper() == "REM":
            toks.append(Tok("comment", line[m.start():], m.start()))
            break
        if kind == "num" and pos < n and (line[pos].isalpha() or line[pos] == "_"):
            # "1E" / "2X": a number glued to letters is not a BASIC09 token sequence the tool should emit
            raise LexError("number glued to identifier at column %d in %r" % (pos, line[:120]))
        toks.append(Tok(kind, text, m.start()))
    return toks


def split_statements(toks):
    """Split a token list at top-level backslashes."""
    out = [[]]
    for t in toks:
        if t.kind == "op" and t.text == "\\":
            out.append([])
        else:
            out[-1].append(t)
    return out
