"""Strict recursive-descent parser for the BASIC09 subset emitted by the tool
(DESIGN.md appendix B) plus what the three C20 library procedures need.

Permissive about everything the properties exclude: no type checking, both
cases of every keyword, `:=` or `=`, arbitrary indentation, empty lines."""
from vf.b09.lex import LexError, Tok, split_statements, tokenize_line


class B09SyntaxError(Exception):
    def __init__(self, msg, lineno=None, line=None):
        super().__init__(msg)
        self.msg = msg
        self.lineno = lineno
        self.line = line

    def __str__(self):
        if self.lineno is not None:
            return "%s (output line %d: %r)" % (self.msg, self.lineno, (self.line or "")[:160])
        return self.msg


RESERVED = set(
    """ABS ADDR AND ASC ATN BASE BOOLEAN BYE BYTE CHAIN CHD CHR$ CHX CLOSE COS CREATE DATA DATE$ DEG DELETE DIM DIR DO
    ELSE END ENDEXIT ENDIF ENDLOOP ENDWHILE EOF ERR ERROR EXEC EXITIF EXP FALSE FIX FLOAT FOR GET GOSUB GOTO IF INPUT INT
    INTEGER KILL LAND LEFT$ LEN LET LNOT LOG LOG10 LOOP LOR LXOR MID$ MOD NEXT NOT OFF ON OPEN OR PARAM PAUSE PEEK PI POKE
    POS PRINT PROCEDURE PUT RAD READ REAL REM REPEAT RESTORE RETURN RIGHT$ RND RUN SEEK SGN SHELL SIN SIZE SQ SQR SQRT STEP
    STOP STR$ STRING SUBSTR TAB TAN THEN TO TRIM$ TROFF TRON TRUE TYPE UNTIL UPDATE USING VAL WHILE WRITE XOR""".split()
)

# name -> (min args, max args, result kind) ; kind: n numeric, s string, b boolean
FUNCTIONS = {
    "ABS": (1, 1, "n"), "ATN": (1, 1, "n"), "COS": (1, 1, "n"), "EXP": (1, 1, "n"), "FIX": (1, 1, "n"), "FLOAT": (1, 1, "n"),
    "INT": (1, 1, "n"), "LEN": (1, 1, "n"), "LOG": (1, 1, "n"), "LOG10": (1, 1, "n"), "PEEK": (1, 1, "n"), "RND": (1, 1, "n"),
    "SGN": (1, 1, "n"), "SIN": (1, 1, "n"), "SQR": (1, 1, "n"), "SQRT": (1, 1, "n"), "SQ": (1, 1, "n"), "TAN": (1, 1, "n"),
    "ASC": (1, 1, "n"), "VAL": (1, 1, "n"), "ADDR": (1, 1, "n"), "SIZE": (1, 1, "n"), "MOD": (2, 2, "n"),
    "LAND": (2, 2, "n"), "LOR": (2, 2, "n"), "LXOR": (2, 2, "n"), "LNOT": (1, 1, "n"),
    "LEFT$": (2, 2, "s"), "RIGHT$": (2, 2, "s"), "MID$": (3, 3, "s"), "CHR$": (1, 1, "s"), "STR$": (1, 1, "s"),
    "TRIM$": (1, 1, "s"), "TAB": (1, 1, "s"), "SUBSTR": (2, 3, "n"),
    "NOT": (1, 1, "b"),
}
CONSTANTS = {"TRUE": "b", "FALSE": "b", "PI": "n"}
TYPE_NAMES = {"REAL", "INTEGER", "BYTE", "BOOLEAN", "STRING"}
REL_OPS = {"=", "<>", "<", ">", "<=", ">=", "=>", "=<"}


class Stmt:
    """kind + free-form fields; `toks` keeps the source tokens."""

    def __init__(self, kind, **kw):
        self.kind = kind
        self.__dict__.update(kw)

    def __repr__(self):
        return "Stmt(%s %s)" % (self.kind, {k: v for k, v in self.__dict__.items() if k not in ("kind", "toks")})


class PhysLine:
    def __init__(self, lineno, label, stmts, raw):
        self.lineno = lineno
        self.label = label
        self.stmts = stmts
        self.raw = raw


class _P:
    """Token cursor for one statement."""

    def __init__(self, toks):
        self.t = toks
        self.i = 0

    def peek(self, k=0):
        return self.t[self.i + k] if self.i + k < len(self.t) else None

    def at_end(self):
        return self.i >= len(self.t)

    def next(self):
        tok = self.peek()
        if tok is None:
            raise B09SyntaxError("unexpected end of statement")
        self.i += 1
        return tok

    def is_kw(self, *words, k=0):
        tok = self.peek(k)
        return tok is not None and tok.kind == "ident" and tok.up in words

    def is_op(self, *ops, k=0):
        tok = self.peek(k)
        return tok is not None and tok.kind == "op" and tok.text in ops

    def expect_op(self, op):
        tok = self.next()
        if tok.kind != "op" or tok.text != op:
            raise B09SyntaxError("expected %r, found %r" % (op, tok.text))
        return tok

    def expect_kw(self, *words):
        tok = self.next()
        if tok.kind != "ident" or tok.up not in words:
            raise B09SyntaxError("expected %s, found %r" % ("/".join(words), tok.text))
        return tok

    def rest_empty(self, what):
        if not self.at_end():
            raise B09SyntaxError("unexpected %r after %s" % (self.peek().text, what))


# ------------------------------------------------------------------ expressions
# precedence (BASIC09 manual): NOT / unary -  >  ^ **  >  * /  >  + -  >  relational  >  AND  >  OR XOR


def parse_expr(p):
    return _or(p)


def _or(p):
    left = _and(p)
    while p.is_kw("OR", "XOR"):
        op = p.next().up
        right = _and(p)
        left = ("bin", op, left, right)
    return left


def _and(p):
    left = _rel(p)
    while p.is_kw("AND"):
        p.next()
        right = _rel(p)
        left = ("bin", "AND", left, right)
    return left


def _rel(p):
    left = _sum(p)
    while p.is_op(*REL_OPS):
        op = p.next().text
        right = _sum(p)
        left = ("bin", op, left, right)
    return left


def _sum(p):
    left = _prod(p)
    while p.is_op("+", "-"):
        op = p.next().text
        right = _prod(p)
        left = ("bin", op, left, right)
    return left


def _prod(p):
    left = _pow(p)
    while p.is_op("*", "/"):
        op = p.next().text
        right = _pow(p)
        left = ("bin", op, left, right)
    return left


def _pow(p):
    left = _unary(p)
    while p.is_op("^", "**"):
        p.next()
        right = _unary(p)
        left = ("bin", "^", left, right)
    return left


def _unary(p):
    if p.is_op("-", "+"):
        op = p.next().text
        return ("un", op, _unary(p))
    if p.is_kw("NOT") and not p.is_op("(", k=1):
        p.next()
        return ("un", "NOT", _unary(p))
    return _primary(p)


def _args(p):
    p.expect_op("(")
    args = []
    if p.is_op(")"):
        raise B09SyntaxError("empty argument list")
    while True:
        if p.is_op(",") or p.is_op(")"):
            raise B09SyntaxError("empty argument")
        args.append(parse_expr(p))
        if p.is_op(","):
            p.next()
            continue
        p.expect_op(")")
        return args


def _primary(p):
    tok = p.peek()
    if tok is None:
        raise B09SyntaxError("operand missing at end of statement")
    if tok.kind == "num":
        p.next()
        txt = tok.text
        is_int = txt.isdigit()
        return ("num", int(txt) if is_int else float(txt), txt)
    if tok.kind == "hex":
        p.next()
        return ("hex", int(tok.text[1:], 16), tok.text)
    if tok.kind == "str":
        p.next()
        return ("str", tok.text[1:-1])
    if tok.kind == "op" and tok.text == "(":
        p.next()
        if p.is_op(")"):
            raise B09SyntaxError("empty parentheses")
        e = parse_expr(p)
        p.expect_op(")")
        return ("par", e)
    if tok.kind == "ident":
        up = tok.up
        if up in FUNCTIONS:
            p.next()
            if not p.is_op("("):
                raise B09SyntaxError("function %s without its argument list" % tok.text)
            args = _args(p)
            lo, hi, _ = FUNCTIONS[up]
            if not (lo <= len(args) <= hi):
                raise B09SyntaxError("function %s called with %d argument(s)" % (tok.text, len(args)))
            if up == "NOT":
                return ("un", "NOT", ("par", args[0]))
            return ("call", up, args)
        if up in CONSTANTS:
            p.next()
            if p.is_op("("):
                raise B09SyntaxError("%s used with an argument list (reserved word as an array name?)" % tok.text)
            return ("const", up)
        if up in RESERVED:
            raise B09SyntaxError("reserved word %r where an operand is expected" % tok.text)
        p.next()
        if p.is_op("("):
            return ("idx", tok.text, _args(p))
        return ("var", tok.text)
    raise B09SyntaxError("operand expected, found %r" % tok.text)


def parse_lvalue(p):
    tok = p.next()
    if tok.kind != "ident":
        raise B09SyntaxError("variable expected, found %r" % tok.text)
    if tok.up.split(".")[0] in RESERVED:
        raise B09SyntaxError("reserved word %r used as a variable" % tok.text)
    if p.is_op("("):
        return ("idx", tok.text, _args(p))
    return ("var", tok.text)


# ------------------------------------------------------------------ statements


def _linenum(p, what):
    tok = p.next()
    if tok.kind != "num" or not tok.text.isdigit():
        raise B09SyntaxError("line number expected after %s, found %r" % (what, tok.text))
    return int(tok.text)


def _decl_list(p, kind):
    """DIM / PARAM:  name[(n[,n[,n]])], ... [: type] {; more}"""
    groups = []
    while True:
        names = []
        while True:
            tok = p.next()
            if tok.kind != "ident":
                raise B09SyntaxError("%s: identifier expected, found %r" % (kind, tok.text))
            if tok.up in RESERVED:
                raise B09SyntaxError("%s: reserved word %r used as a variable" % (kind, tok.text))
            dims = []
            if p.is_op("("):
                p.next()
                while True:
                    d = p.next()
                    if d.kind == "num" and d.text.isdigit():
                        dims.append(int(d.text))
                    elif d.kind == "hex":
                        dims.append(int(d.text[1:], 16))
                    else:
                        raise B09SyntaxError("%s: array bound must be an integer constant, found %r" % (kind, d.text))
                    if p.is_op(","):
                        p.next()
                        continue
                    p.expect_op(")")
                    break
            names.append((tok.text, dims))
            if p.is_op(","):
                p.next()
                continue
            break
        typ = None
        size = None
        if p.is_op(":"):
            p.next()
            t = p.next()
            if t.kind != "ident":
                raise B09SyntaxError("%s: type name expected, found %r" % (kind, t.text))
            typ = t.text
            if p.is_op("["):
                p.next()
                s = p.next()
                if s.kind != "num" or not s.text.isdigit():
                    raise B09SyntaxError("%s: string size must be an integer, found %r" % (kind, s.text))
                size = int(s.text)
                p.expect_op("]")
        groups.append({"names": names, "type": typ, "size": size})
        if p.is_op(";"):
            p.next()
            continue
        break
    p.rest_empty(kind)
    return groups


def _print_items(p):
    """-> list of ('item', expr) / ('sep', ';' or ',')"""
    items = []
    while not p.at_end():
        if p.is_op(";", ","):
            items.append(("sep", p.next().text))
        else:
            if items and items[-1][0] == "item":
                raise B09SyntaxError("PRINT items must be separated by ';' or ',' (found %r)" % p.peek().text)
            items.append(("item", parse_expr(p)))
    return items


def parse_statement(toks):
    """One backslash-free statement -> Stmt."""
    p = _P(toks)
    tok = p.peek()
    if tok is None:
        return Stmt("empty", toks=toks)
    if tok.kind == "comment":
        if len(toks) != 1:
            raise B09SyntaxError("text after comment")
        return Stmt("comment", text=tok.text, toks=toks)
    if tok.kind != "ident":
        raise B09SyntaxError("statement cannot start with %r" % tok.text)
    up = tok.up
    if up == "BASE":
        p.next()
        n = p.next()
        p.rest_empty("BASE")
        return Stmt("base", n=int(n.text), toks=toks)
    if up == "TYPE":
        p.next()
        name = p.next()
        p.expect_op("=")
        fields = _decl_list(p, "TYPE")
        return Stmt("type", name=name.text, groups=fields, toks=toks)
    if up in ("DIM", "PARAM"):
        p.next()
        return Stmt(up.lower(), groups=_decl_list(p, up), toks=toks)
    if up == "PROCEDURE":
        p.next()
        name = p.next()
        p.rest_empty("PROCEDURE")
        return Stmt("procedure", name=name.text, toks=toks)
    if up == "RUN":
        p.next()
        name = p.next()
        if name.kind != "ident":
            raise B09SyntaxError("RUN: procedure name expected, found %r" % name.text)
        args = _args(p) if p.is_op("(") else []
        p.rest_empty("RUN")
        return Stmt("run", name=name.text, args=args, toks=toks)
    if up in ("GOTO", "GOSUB"):
        p.next()
        n = _linenum(p, up)
        p.rest_empty(up)
        return Stmt(up.lower(), target=n, toks=toks)
    if up == "ON":
        p.next()
        if p.is_kw("ERROR"):
            p.next()
            if p.at_end():
                return Stmt("onerror", target=None, toks=toks)
            p.expect_kw("GOTO")
            n = _linenum(p, "ON ERROR GOTO")
            p.rest_empty("ON ERROR GOTO")
            return Stmt("onerror", target=n, toks=toks)
        e = parse_expr(p)
        go = p.expect_kw("GOTO", "GOSUB").up
        targets = [_linenum(p, "ON..GO")]
        while p.is_op(","):
            p.next()
            targets.append(_linenum(p, "ON..GO"))
        p.rest_empty("ON..GO")
        return Stmt("ongo", exp=e, sub=(go == "GOSUB"), targets=targets, toks=toks)
    if up == "IF":
        p.next()
        c = parse_expr(p)
        p.expect_kw("THEN")
        if p.at_end():
            return Stmt("if", cond=c, toks=toks)
        nxt = p.peek()
        if nxt.kind == "num":
            n = _linenum(p, "THEN")
            p.rest_empty("IF..THEN <line>")
            return Stmt("ifgoto", cond=c, target=n, toks=toks)
        # IF c THEN <statement> (closed by a later ENDIF); used by the bundled library
        inner = parse_statement(toks[p.i:])
        return [Stmt("if", cond=c, toks=toks[: p.i])] + (inner if isinstance(inner, list) else [inner])
    if up in ("ELSE", "ENDIF", "LOOP", "ENDLOOP", "ENDEXIT", "ENDWHILE", "RETURN", "END", "STOP", "TRON", "TROFF", "RESTORE", "REPEAT", "BYE"):
        p.next()
        if up == "END" and not p.at_end():
            # END "text" prints and ends; not emitted by the tool
            parse_expr(p)
        if up == "RESTORE" and not p.at_end():
            _linenum(p, "RESTORE")
        p.rest_empty(up)
        return Stmt(up.lower(), toks=toks)
    if up == "EXITIF":
        p.next()
        c = parse_expr(p)
        p.expect_kw("THEN")
        p.rest_empty("EXITIF..THEN")
        return Stmt("exitif", cond=c, toks=toks)
    if up == "WHILE":
        p.next()
        c = parse_expr(p)
        p.expect_kw("DO")
        p.rest_empty("WHILE..DO")
        return Stmt("while", cond=c, toks=toks)
    if up == "UNTIL":
        p.next()
        c = parse_expr(p)
        p.rest_empty("UNTIL")
        return Stmt("until", cond=c, toks=toks)
    if up == "FOR":
        p.next()
        v = parse_lvalue(p)
        if v[0] != "var":
            raise B09SyntaxError("FOR needs a simple variable")
        if not p.is_op("=", ":="):
            raise B09SyntaxError("FOR: '=' expected")
        p.next()
        a = parse_expr(p)
        p.expect_kw("TO")
        b = parse_expr(p)
        c = None
        if p.is_kw("STEP"):
            p.next()
            c = parse_expr(p)
        p.rest_empty("FOR")
        return Stmt("for", var=v[1], start=a, limit=b, step=c, toks=toks)
    if up == "NEXT":
        p.next()
        if p.at_end():
            raise B09SyntaxError("NEXT without a variable")
        v = p.next()
        if v.kind != "ident":
            raise B09SyntaxError("NEXT: variable expected, found %r" % v.text)
        p.rest_empty("NEXT")
        return Stmt("next", var=v.text, toks=toks)
    if up == "DATA":
        p.next()
        items = []
        while True:
            if p.at_end() or p.is_op(","):
                raise B09SyntaxError("empty DATA item")
            items.append(parse_expr(p))
            if p.is_op(","):
                p.next()
                continue
            break
        p.rest_empty("DATA")
        return Stmt("data", items=items, toks=toks)
    if up == "READ":
        p.next()
        targets = []
        if p.is_op("#"):
            raise B09SyntaxError("READ # not expected")
        while True:
            targets.append(parse_lvalue(p))
            if p.is_op(","):
                p.next()
                continue
            break
        p.rest_empty("READ")
        return Stmt("read", targets=targets, toks=toks)
    if up == "INPUT":
        p.next()
        prompt = None
        if p.peek() is not None and p.peek().kind == "str":
            prompt = p.next().text[1:-1]
            p.expect_op(",")
        targets = []
        while True:
            targets.append(parse_lvalue(p))
            if p.is_op(","):
                p.next()
                continue
            break
        p.rest_empty("INPUT")
        return Stmt("input", prompt=prompt, targets=targets, toks=toks)
    if up == "PRINT":
        p.next()
        path = None
        if p.is_op("#"):
            p.next()
            path = parse_expr(p)
            if not p.at_end():
                p.expect_op(",")
        if p.is_kw("USING"):
            raise B09SyntaxError("PRINT USING not expected")
        return Stmt("print", path=path, items=_print_items(p), toks=toks)
    if up == "POKE":
        p.next()
        a = parse_expr(p)
        p.expect_op(",")
        b = parse_expr(p)
        p.rest_empty("POKE")
        return Stmt("poke", addr=a, val=b, toks=toks)
    if up == "ERROR":
        p.next()
        e = parse_expr(p)
        p.rest_empty("ERROR")
        return Stmt("error", exp=e, toks=toks)
    if up in ("PUT", "GET", "OPEN", "CLOSE", "SHELL", "SEEK", "CREATE", "DELETE", "WRITE", "CHD", "CHX", "KILL", "PAUSE", "DEG", "RAD", "CHAIN"):
        # library-only statements: operands are not interpreted
        return Stmt("os9", word=up, toks=toks)
    if up == "LET":
        p.next()
    if p.peek() is not None and p.peek().kind == "ident" and p.peek().up in RESERVED:
        raise B09SyntaxError("reserved word %r at the start of an assignment (used as a variable?)" % p.peek().text)
    lv = parse_lvalue(p)
    if not p.is_op(":=", "="):
        nxt = p.peek()
        raise B09SyntaxError("':=' expected after %r, found %r" % (lv[1], nxt.text if nxt else "end of statement"))
    p.next()
    if p.at_end():
        raise B09SyntaxError("assignment without a right-hand side")
    e = parse_expr(p)
    p.rest_empty("assignment")
    return Stmt("assign", target=lv, exp=e, toks=toks)


ARTEFACTS = ("<Node", "object at 0x", "RegexNode", "<coco.", "None", "<class")


def parse_program(text, allow_procedures=True):
    """-> list of PhysLine.  Raises B09SyntaxError with the output line number."""
    lines = []
    for no, raw in enumerate(text.split("\n"), 1):
        raw = raw.rstrip("\r")
        try:
            toks = tokenize_line(raw)
        except LexError as e:
            raise B09SyntaxError(str(e), no, raw)
        label = None
        if toks and toks[0].kind == "num" and toks[0].text.isdigit():
            label = int(toks[0].text)
            toks = toks[1:]
        stmts = []
        try:
            for piece in split_statements(toks):
                st = parse_statement(piece)
                if isinstance(st, list):
                    stmts.extend(st)
                else:
                    stmts.append(st)
            if len(stmts) > 1 and any(s.kind == "empty" for s in stmts):
                raise B09SyntaxError("empty statement between backslashes")
        except B09SyntaxError as e:
            raise B09SyntaxError(e.msg, no, raw)
        lines.append(PhysLine(no, label, stmts, raw))
    return lines


def walk_expr(e):
    """Yield every sub-expression (pre-order)."""
    yield e
    k = e[0]
    if k in ("un",):
        yield from walk_expr(e[2])
    elif k == "bin":
        yield from walk_expr(e[2])
        yield from walk_expr(e[3])
    elif k == "par":
        yield from walk_expr(e[1])
    elif k in ("call", "idx"):
        for a in e[2]:
            yield from walk_expr(a)


def stmt_exprs(st):
    """All top-level expressions of a statement (for scanning)."""
    k = st.kind
    out = []
    if k == "assign":
        out += [st.target, st.exp]
    elif k == "run":
        out += list(st.args)
    elif k in ("if", "ifgoto", "exitif", "while", "until"):
        out.append(st.cond)
    elif k == "ongo":
        out.append(st.exp)
    elif k == "for":
        out += [("var", st.var), st.start, st.limit] + ([st.step] if st.step is not None else [])
    elif k == "next":
        out.append(("var", st.var))
    elif k == "data":
        out += list(st.items)
    elif k in ("read", "input"):
        out += list(st.targets)
    elif k == "print":
        if st.path is not None:
            out.append(st.path)
        out += [e for t, e in st.items if t == "item"]
    elif k == "poke":
        out += [st.addr, st.val]
    elif k == "error":
        out.append(st.exp)
    return out


OPENERS = {"if": "endif", "loop": "endloop", "exitif": "endexit", "while": "endwhile", "for": "next", "repeat": "until"}


def check_structure(lines):
    """Block nesting: every opener has its closer in the right order; ELSE only
    inside IF; EXITIF only inside LOOP/WHILE.  Raises B09SyntaxError."""
    stack = []
    for ln in lines:
        for st in ln.stmts:
            k = st.kind
            try:
                if k in OPENERS:
                    if k == "exitif" and not any(s[0] in ("loop", "while", "repeat", "for") for s in stack):
                        raise B09SyntaxError("EXITIF outside a loop")
                    stack.append((k, ln.lineno, getattr(st, "var", None)))
                elif k == "else":
                    if not stack or stack[-1][0] != "if":
                        raise B09SyntaxError("ELSE without an open IF")
                    stack[-1] = ("if-else", stack[-1][1], None)
                elif k in ("endif", "endloop", "endexit", "endwhile", "next", "until"):
                    want = {"endif": ("if", "if-else"), "endloop": ("loop",), "endexit": ("exitif",), "endwhile": ("while",),
                            "next": ("for",), "until": ("repeat",)}[k]
                    if not stack:
                        raise B09SyntaxError("%s without an opener" % k.upper())
                    top = stack.pop()
                    if top[0] not in want:
                        raise B09SyntaxError("%s closes a %s opened on output line %d" % (k.upper(), top[0].upper(), top[1]))
                    if k == "next" and top[2] is not None and top[2].upper() != st.var.upper():
                        raise B09SyntaxError("NEXT %s closes FOR %s opened on output line %d" % (st.var, top[2], top[1]))
                elif k == "procedure":
                    if stack:
                        raise B09SyntaxError("%s opened on output line %d is not closed before the next procedure" % (stack[-1][0].upper(), stack[-1][1]))
            except B09SyntaxError as e:
                raise B09SyntaxError(e.msg, ln.lineno, ln.raw)
    if stack:
        top = stack[-1]
        raise B09SyntaxError("%s opened on output line %d is never closed" % (top[0].upper(), top[1]))
