"""Scanner for BASIC09 procedure files (the bundled library and bundles the tool
emits): procedures, PARAM interfaces, TYPE records, RUN edges.  Uses the
tokenising parser, so strings and comments are never mistaken for code."""
from vf import tool
from vf.b09 import parse

SYSTEM_MODULES = {"gfx", "gfx2", "syscall", "inkey"}
NUMERIC_TYPES = {"REAL", "INTEGER", "BYTE", "BOOLEAN"}


class ProcInfo:
    def __init__(self, name, first_line):
        self.name = name
        self.first_line = first_line
        self.params = []  # [(name, kind)]  kind: 'n', 's', 'r:<type>'
        self.decls = {}  # NAME -> kind
        self.types = {}  # type name lower -> [(field lower, dims, type upper)]
        self.runs = []  # [(callee lower, [arg expr], lineno)]
        self.lines = []


def kind_of_type(typ):
    if typ is None:
        return None
    u = typ.upper()
    if u == "STRING":
        return "s"
    if u in NUMERIC_TYPES:
        return "n"
    return "r:" + typ.lower()


def scan(text):
    """-> (ordered list of ProcInfo, list of PhysLine).  Text before the first PROCEDURE header forms a ProcInfo named ''."""
    lines = parse.parse_program(text)
    procs = []
    cur = ProcInfo("", 1)
    started = False
    for ln in lines:
        for st in ln.stmts:
            if st.kind == "procedure":
                if started or cur.lines:
                    procs.append(cur)
                cur = ProcInfo(st.name, ln.lineno)
                started = True
                continue
            if st.kind == "type":
                fields = []
                for g in st.groups:
                    for nm, dims in g["names"]:
                        fields.append((nm.lower(), list(dims), (g["type"] or "").upper()))
                cur.types[st.name.lower()] = fields
            elif st.kind in ("dim", "param"):
                for g in st.groups:
                    for nm, dims in g["names"]:
                        k = kind_of_type(g["type"]) or ("s" if nm.endswith("$") else "n")
                        cur.decls[nm.upper()] = k
                        if st.kind == "param":
                            cur.params.append((nm, k))
            elif st.kind == "run":
                cur.runs.append((st.name.lower(), st.args, ln.lineno))
        if not (len(ln.stmts) == 1 and ln.stmts[0].kind == "procedure"):
            cur.lines.append(ln)
    procs.append(cur)
    if procs and procs[0].name == "" and not procs[0].lines and len(procs) > 1:
        procs = procs[1:]
    return procs, lines


_lib_cache = {}


def library():
    """Interfaces and call graph of the current coco/resources/ecb.b09."""
    text = tool.ecb_text().replace("\r\n", "\n").replace("\r", "\n").replace("<<>>", "")  # size placeholder of the raw library
    key = hash(text)
    if key not in _lib_cache:
        procs, _ = scan(text)
        _lib_cache.clear()
        _lib_cache[key] = {p.name.lower(): p for p in procs if p.name}
    return _lib_cache[key]


def closure(roots, graph):
    seen = set()
    todo = [r for r in roots]
    while todo:
        n = todo.pop()
        if n in seen or n not in graph:
            continue
        seen.add(n)
        for callee, _, _ in graph[n].runs:
            if callee not in seen:
                todo.append(callee)
    return seen


STRING_FUNCS = {"LEFT$", "RIGHT$", "MID$", "CHR$", "STR$", "TRIM$", "DATE$"}


def expr_kind(e, proc):
    """'n' / 's' / 'b' / 'r:<type>' / None (unknown)."""
    k = e[0]
    if k in ("num", "hex"):
        return "n"
    if k == "str":
        return "s"
    if k == "const":
        return "b" if e[1] in ("TRUE", "FALSE") else "n"
    if k == "par":
        return expr_kind(e[1], proc)
    if k == "un":
        return "b" if e[1] == "NOT" else "n"
    if k == "bin":
        if e[1] in parse.REL_OPS or e[1] in ("AND", "OR", "XOR"):
            return "b"
        if e[1] == "+":
            a = expr_kind(e[2], proc)
            return a if a in ("s", "n") else expr_kind(e[3], proc)
        return "n"
    if k == "call":
        return "s" if e[1] in STRING_FUNCS else ("b" if e[1] == "NOT" else "n")
    if k in ("var", "idx"):
        name = e[1]
        base = name.split(".")[0]
        d = proc.decls.get(base.upper()) if proc is not None else None
        if "." in name:
            return "n"  # record fields of the known records are numeric
        if d is not None:
            return d
        return "s" if name.endswith("$") else "n"
    return None
