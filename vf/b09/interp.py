"""Reference interpreter for the BASIC09 subset the tool emits (facts B09-1..B09-9
of DESIGN.md 3.2).  Runtime procedures are *events* with contract results
(section 3.3) unless real procedure text is supplied (C20)."""
import math
from fractions import Fraction

from vf import sem
from vf.b09 import parse
from vf.sem import DomainError, FormatDependent, StepLimit


class B09Error(Exception):
    """The emitted program is not executable BASIC09 (undeclared array, type
    error, jump to a missing label, FOR/NEXT mismatch ...)."""


class B09RuntimeError(Exception):
    """ERROR n executed (the procedure signals a run-time error)."""

    def __init__(self, code):
        super().__init__("ERROR %s" % code)
        self.code = code


class _Uninit:
    def __repr__(self):
        return "UNINIT"


UNINIT = _Uninit()


class Proc:
    def __init__(self, name):
        self.name = name
        self.instrs = []
        self.labels = {}
        self.params = []  # [(name, dims, type, size)]
        self.decls = {}  # NAME -> dict(dims, type, size)
        self.types = {}  # type name -> [(field, dims, type)]
        self.base = 1
        self.data = []


def compile_program(lines):
    """list of PhysLine -> dict name -> Proc ('' for text without a header)."""
    procs = {}
    cur = Proc("")
    procs[""] = cur
    stack = []
    seen_ids = {}  # per procedure: identifiers referenced so far, in textual order

    def emit(kind, st=None, **kw):
        cur.instrs.append({"k": kind, "st": st, **kw})
        return len(cur.instrs) - 1

    for ln in lines:
        first = True
        for st in ln.stmts:
            k = st.kind
            if k == "procedure":
                if stack:
                    raise B09Error("block not closed before PROCEDURE")
                cur = Proc(st.name)
                procs[st.name.lower()] = cur
                continue
            if first and ln.label is not None:
                if ln.label in cur.labels:
                    raise B09Error("label %d defined twice" % ln.label)
                cur.labels[ln.label] = len(cur.instrs)
            first = False
            if k in ("empty", "comment"):
                if ln.label is not None and k == "comment":
                    emit("nop", st)
                continue
            if k not in ("dim", "param", "type", "data"):
                for e_ in parse.stmt_exprs(st):
                    for sub in parse.walk_expr(e_):
                        if sub[0] in ("var", "idx"):
                            seen_ids.setdefault(id(cur), set()).add(sub[1].upper().split(".")[0])
            if k == "base":
                cur.base = st.n
            elif k == "type":
                fields = []
                for g in st.groups:
                    for nm, dims in g["names"]:
                        fields.append((nm, dims, g["type"]))
                cur.types[st.name.lower()] = fields
            elif k in ("dim", "param"):
                for g in st.groups:
                    for nm, dims in g["names"]:
                        d = {"dims": dims, "type": g["type"], "size": g["size"]}
                        if nm.upper() in cur.decls:
                            raise B09Error("identifier %s declared twice" % nm)
                        if nm.upper() in seen_ids.setdefault(id(cur), set()):
                            # BASIC09 declares a name implicitly (REAL, or STRING for names ending in $) at its first use; a DIM further down
                            # then defines it a second time
                            raise B09Error("identifier %s is declared after it has already been used (it was implicitly declared there)" % nm)
                        cur.decls[nm.upper()] = d
                        if k == "param":
                            cur.params.append(nm)
            elif k == "data":
                cur.data.extend(st.items)
            elif k == "if":
                stack.append(("if", emit("if", st, f=None)))
            elif k == "else":
                if not stack or stack[-1][0] != "if":
                    raise B09Error("ELSE without IF")
                _, i = stack.pop()
                j = emit("jump", st, t=None)
                cur.instrs[i]["f"] = len(cur.instrs)
                stack.append(("else", j))
            elif k == "endif":
                if not stack or stack[-1][0] not in ("if", "else"):
                    raise B09Error("ENDIF without IF")
                kind, i = stack.pop()
                if kind == "if":
                    cur.instrs[i]["f"] = len(cur.instrs)
                else:
                    cur.instrs[i]["t"] = len(cur.instrs)
            elif k in ("loop", "repeat"):
                stack.append((k, emit("nop", st), []))
            elif k == "while":
                stack.append(("while", emit("while", st, f=None), []))
            elif k == "exitif":
                stack.append(("exitif", emit("if", st, f=None)))
            elif k == "endexit":
                if not stack or stack[-1][0] != "exitif":
                    raise B09Error("ENDEXIT without EXITIF")
                _, i = stack.pop()
                j = emit("jump", st, t=None)
                cur.instrs[i]["f"] = len(cur.instrs)
                for fr in reversed(stack):
                    if fr[0] in ("loop", "while", "repeat", "for"):
                        fr[2].append(j)
                        break
                else:
                    raise B09Error("EXITIF outside a loop")
            elif k == "endloop":
                if not stack or stack[-1][0] != "loop":
                    raise B09Error("ENDLOOP without LOOP")
                _, i, exits = stack.pop()
                emit("jump", st, t=i)
                for j in exits:
                    cur.instrs[j]["t"] = len(cur.instrs)
            elif k == "endwhile":
                if not stack or stack[-1][0] != "while":
                    raise B09Error("ENDWHILE without WHILE")
                _, i, exits = stack.pop()
                emit("jump", st, t=i)
                cur.instrs[i]["f"] = len(cur.instrs)
                for j in exits:
                    cur.instrs[j]["t"] = len(cur.instrs)
            elif k == "until":
                if not stack or stack[-1][0] != "repeat":
                    raise B09Error("UNTIL without REPEAT")
                _, i, exits = stack.pop()
                emit("until", st, t=i)
                for j in exits:
                    cur.instrs[j]["t"] = len(cur.instrs)
            elif k == "for":
                stack.append(("for", emit("for", st, f=None), []))
            elif k == "next":
                if not stack or stack[-1][0] != "for":
                    raise B09Error("NEXT %s without an open FOR" % st.var)
                _, i, exits = stack.pop()
                if cur.instrs[i]["st"].var.upper() != st.var.upper():
                    raise B09Error("NEXT %s closes FOR %s" % (st.var, cur.instrs[i]["st"].var))
                emit("next", st, t=i)
                cur.instrs[i]["f"] = len(cur.instrs)
                for j in exits:
                    cur.instrs[j]["t"] = len(cur.instrs)
            else:
                emit(k, st)
    if stack:
        raise B09Error("%s block is never closed" % stack[-1][0].upper())
    return procs


class Ref:
    """By-reference argument."""

    def __init__(self, env, name, subs=None, temp=None):
        self.env = env
        self.name = name
        self.subs = subs
        self.temp = temp
        self.is_temp = env is None

    def get(self, interp, record=True):
        if self.is_temp:
            return self.temp
        return interp.read(self.env, self.name, self.subs, record)

    def set(self, interp, v):
        if self.is_temp:
            self.temp = v
            return
        interp.write(self.env, self.name, self.subs, v)


class Env:
    def __init__(self, proc):
        self.proc = proc
        self.vars = {}
        self.arrays = {}
        self.refs = {}
        self.for_state = {}
        self.gosub = []
        self.data_ptr = 0
        self.on_error = None


class B09Interp:
    def __init__(self, procs, script=None, step_limit=40000, contracts=None, strict_bool=True):
        self.procs = procs
        self.script = {k: list(v) for k, v in (script or {}).items()}
        self.step_limit = step_limit
        self.steps = 0
        self.events = []
        self.runs = []  # (name, [values or None]) for every RUN executed
        self.uninit_reads = []
        self.ended = None
        self.contracts = CONTRACTS if contracts is None else contracts
        self.strict_bool = strict_bool
        self.truncations = []
        self.stop_at_label_jump = None

    # ---------------------------------------------------------------- storage
    def decl(self, env, name):
        return env.proc.decls.get(name.upper())

    def kind_of(self, env, name):
        d = self.decl(env, name)
        if d and d["type"]:
            return d["type"].upper()
        return "STRING" if name.endswith("$") else "REAL"

    def capacity(self, env, name):
        d = self.decl(env, name)
        if d and d["type"] and d["type"].upper() == "STRING":
            return d["size"] if d["size"] is not None else 32
        if (not d or not d["type"]) and name.endswith("$"):
            return 32
        return None

    def coerce(self, env, name, v):
        kind = self.kind_of(env, name.split(".")[0] if "." in name and self.decl(env, name.split(".")[0]) else name)
        if "." in name:
            base, fld = name.split(".", 1)
            d = self.decl(env, base)
            kind = "BYTE"
            if d and d["type"]:
                for f, dims, t in env.proc.types.get(d["type"].lower(), []):
                    if f.lower() == fld.split("(")[0].lower():
                        kind = (t or "REAL").upper()
        if kind == "STRING":
            if not isinstance(v, str):
                raise B09Error("numeric value assigned to string variable %s" % name)
            cap = self.capacity(env, name)
            if cap is not None:
                plain_len = len(v.replace(sem.TOK_OPEN, "").replace(sem.TOK_CLOSE, ""))
                if sem.has_tok(v):
                    if plain_len > cap:
                        raise FormatDependent("truncation of a string containing a formatted number")
                elif len(v) > cap:
                    self.truncations.append((name, len(v), cap))
                    v = v[:cap]
            return v
        if isinstance(v, str):
            raise B09Error("string value assigned to numeric variable %s" % name)
        if kind == "BOOLEAN":
            if not isinstance(v, bool):
                raise B09Error("numeric value assigned to BOOLEAN %s" % name)
            return v
        if isinstance(v, bool):
            raise B09Error("boolean value assigned to numeric variable %s (type mismatch)" % name)
        if kind in ("INTEGER", "BYTE"):
            v = sem.mathfn("ROUND", v)
        return v

    def _array(self, env, name, nidx):
        d = self.decl(env, name)
        if d is None or not d["dims"]:
            raise B09Error("array %s is used but never declared (DIM)" % name)
        if len(d["dims"]) != nidx:
            raise B09Error("array %s declared with %d dimension(s) but used with %d" % (name, len(d["dims"]), nidx))
        return d

    def _subs(self, env, name, subs):
        d = self._array(env, name, len(subs))
        out = []
        for s, n in zip(subs, d["dims"]):
            if isinstance(s, (str, bool)):
                raise B09Error("non-numeric subscript")
            if not sem.is_integer(s):
                raise FormatDependent("non-integral subscript")  # U-4
            i = int(s)
            lo = env.proc.base
            if not lo <= i <= lo + n - 1:
                raise B09Error("subscript %d of %s outside %d..%d" % (i, name, lo, lo + n - 1))
            out.append(i)
        return tuple(out)

    def read(self, env, name, subs=None, record=True):
        key = name.upper()
        if key in env.refs and subs is None:
            return env.refs[key].get(self, record)
        if subs is not None:
            if key in env.refs:
                r = env.refs[key]
                return self.read(r.env, r.name, subs, record)
            idx = self._subs(env, name, subs)
            v = env.arrays.get(key, {}).get(idx, UNINIT)
        else:
            v = env.vars.get(key, UNINIT)
        if v is UNINIT:
            if record:
                self.uninit_reads.append(name if subs is None else "%s%r" % (name, tuple(int(x) for x in subs)))
            k = self.kind_of(env, name)
            return "" if k == "STRING" else (False if k == "BOOLEAN" else Fraction(0))
        return v

    def write(self, env, name, subs, v):
        key = name.upper()
        if key in env.refs:
            r = env.refs[key]
            if subs is None:
                r.set(self, v)
            else:
                self.write(r.env, r.name, subs, v)
            return
        v = self.coerce(env, name, v)
        if subs is not None:
            idx = self._subs(env, name, subs)
            env.arrays.setdefault(key, {})[idx] = v
        else:
            d = self.decl(env, name)
            if d is not None and d["dims"]:
                raise B09Error("array %s assigned without subscripts" % name)
            env.vars[key] = v

    def script_next(self, name):
        q = self.script.get(name)
        if not q:
            raise DomainError("script for %s exhausted" % name)
        return q.pop(0)

    # ---------------------------------------------------------------- expressions
    def truth(self, env, e):
        v = self.eval(env, e)
        if isinstance(v, bool):
            return v
        if self.strict_bool:
            raise B09Error("numeric expression used where BASIC09 needs a BOOLEAN")
        if isinstance(v, str):
            raise B09Error("string used as condition")
        return v != 0

    def num(self, env, e):
        v = self.eval(env, e)
        if isinstance(v, str):
            raise B09Error("string where a number is needed")
        if isinstance(v, bool):
            raise B09Error("BOOLEAN where a number is needed (mixed boolean/numeric expression)")
        return v

    def string(self, env, e):
        v = self.eval(env, e)
        if not isinstance(v, str):
            raise B09Error("number where a string is needed")
        return v

    def eval(self, env, e):
        k = e[0]
        if k == "num":
            return sem.lit(e[1])
        if k == "hex":
            # BASIC09 hex constants are 16-bit INTEGERs: $8000..$FFFF are negative
            return Fraction(e[1] - 0x10000 if 0x8000 <= e[1] <= 0xFFFF else e[1])
        if k == "str":
            return e[1]
        if k == "const":
            return {"TRUE": True, "FALSE": False, "PI": math.pi}[e[1]]
        if k == "var":
            return self.read(env, e[1])
        if k == "idx":
            subs = [self.num(env, a) for a in e[2]]
            return self.read(env, e[1], subs)
        if k == "par":
            return self.eval(env, e[1])
        if k == "un":
            if e[1] == "NOT":
                v = self.eval(env, e[2])
                if not isinstance(v, bool):
                    raise B09Error("NOT applied to a non-BOOLEAN")
                return not v
            v = self.num(env, e[2])
            return -v if e[1] == "-" else v
        if k == "bin":
            op = e[1]
            if op in ("AND", "OR", "XOR"):
                a = self.eval(env, e[2])
                b = self.eval(env, e[3])
                if not isinstance(a, bool) or not isinstance(b, bool):
                    raise B09Error("%s applied to non-BOOLEAN operands" % op)
                return (a and b) if op == "AND" else ((a or b) if op == "OR" else (a != b))
            a = self.eval(env, e[2])
            b = self.eval(env, e[3])
            if op in parse.REL_OPS:
                if isinstance(a, bool) or isinstance(b, bool):
                    if isinstance(a, bool) and isinstance(b, bool) and op in ("=", "<>"):
                        return (a == b) if op == "=" else (a != b)
                    raise B09Error("comparison mixes BOOLEAN and numeric operands")
                if isinstance(a, str) != isinstance(b, str):
                    raise B09Error("comparison of a string with a number")
                return sem.compare(op, a, b)
            if op == "+" and isinstance(a, str) and isinstance(b, str):
                return a + b
            if isinstance(a, (str, bool)) or isinstance(b, (str, bool)):
                raise B09Error("arithmetic on a non-numeric operand")
            return sem.arith(op, a, b)
        if k == "call":
            return self.func(env, e[1], e[2])
        raise ValueError("cannot evaluate %r" % (e,))

    def func(self, env, name, args):
        if name in ("ABS", "SGN", "SQR", "SQRT", "SIN", "COS", "TAN", "ATN", "EXP", "LOG"):
            return sem.mathfn("SQR" if name == "SQRT" else name, self.num(env, args[0]))
        if name == "INT":
            return sem.mathfn("TRUNC", self.num(env, args[0]))  # BASIC09 INT truncates a REAL
        if name == "FIX":
            return sem.mathfn("ROUND", self.num(env, args[0]))  # BASIC09 FIX rounds to INTEGER
        if name == "FLOAT":
            return self.num(env, args[0])
        if name in ("LAND", "LOR", "LXOR"):
            return sem.logic(name[1:], self.num(env, args[0]), self.num(env, args[1]))
        if name == "LNOT":
            return sem.logic("NOT", self.num(env, args[0]))
        if name == "LEN":
            return Fraction(len(sem.plain(self.string(env, args[0]), "LEN")))
        if name == "ASC":
            s = sem.plain(self.string(env, args[0]), "ASC")
            if s == "":
                raise DomainError("ASC of empty string")
            return Fraction(ord(s[0]))
        if name == "VAL":
            return sem.val_of(self.string(env, args[0]))
        if name == "CHR$":
            x = self.num(env, args[0])
            if not sem.is_integer(x) or not 0 <= int(x) <= 255:
                raise DomainError("CHR$ argument")
            return chr(int(x))
        if name == "STR$":
            return sem.numtok(self.num(env, args[0]))
        if name in ("LEFT$", "RIGHT$"):
            s = sem.plain(self.string(env, args[0]), name)
            n = self.num(env, args[1])
            if not sem.is_integer(n) or int(n) < 0:
                raise DomainError("%s count" % name)
            n = int(n)
            return s[:n] if name == "LEFT$" else (s[-n:] if 0 < n < len(s) else ("" if n == 0 else s))
        if name == "MID$":
            s = sem.plain(self.string(env, args[0]), "MID$")
            m = self.num(env, args[1])
            n = self.num(env, args[2])
            if not sem.is_integer(m) or not sem.is_integer(n) or int(m) < 1 or int(n) < 0:
                raise DomainError("MID$ arguments")
            return s[int(m) - 1 : int(m) - 1 + int(n)]
        if name == "TAB":
            return ("tab", self.num(env, args[0]))
        if name in ("PEEK", "RND", "ADDR"):
            raise DomainError("%s is not a deterministic function of the program" % name)
        raise B09Error("function %s is not modelled" % name)

    # ---------------------------------------------------------------- RUN
    def make_ref(self, env, e):
        if e[0] == "var":
            key = e[1].upper()
            if key in env.refs:
                return env.refs[key]
            return Ref(env, e[1])
        if e[0] == "idx" and e[1].upper() not in parse.FUNCTIONS:
            subs = [self.num(env, a) for a in e[2]]
            self._subs(env, e[1], subs)
            return Ref(env, e[1], subs)
        return Ref(None, None, temp=self.eval(env, e))

    def do_run(self, env, st):
        name = st.name.lower()
        contract = self.contracts.get(name)
        n_in = contract[0] if contract else None
        refs = []
        vals = []
        for i, a in enumerate(st.args):
            is_output = contract is not None and i >= n_in
            if is_output or a[0] in ("var", "idx"):
                if a[0] == "var" and "." not in a[1] and self.decl(env, a[1]) and self.decl(env, a[1])["type"] and self.decl(env, a[1])["type"].upper() not in parse.TYPE_NAMES:
                    refs.append(Ref(None, None, temp=("record", a[1])))
                    vals.append(("record", a[1].lower()))
                    continue
                r = self.make_ref(env, a)
                refs.append(r)
                if is_output:
                    vals.append(None)
                else:
                    vals.append(r.get(self, record=(contract is not None)))
            else:
                v = self.eval(env, a)
                refs.append(Ref(None, None, temp=v))
                vals.append(v)
        self.runs.append((name, vals, list(st.args)))
        if contract is not None:
            fn = contract[1]
            if len(st.args) < n_in + (1 if fn else 0):
                raise B09Error("RUN %s with too few arguments" % name)
            if fn is not None:
                out = fn(self, vals[:n_in])
                refs[n_in].set(self, out)
            return
        if name in self.procs and self.procs[name].instrs is not None and name in getattr(self, "real_procs", ()):
            self.call_proc(name, refs)
            return
        self.events.append(("run", name, tuple(vals)))

    def call_proc(self, name, refs):
        proc = self.procs[name]
        env = Env(proc)
        if len(refs) != len(proc.params):
            raise B09Error("procedure %s called with %d argument(s), declares %d" % (name, len(refs), len(proc.params)))
        for pn, r in zip(proc.params, refs):
            env.refs[pn.upper()] = r
        self.exec_proc(env)

    # ---------------------------------------------------------------- execution
    def run_main(self, name=""):
        proc = self.procs[name]
        env = Env(proc)
        self.main_env = env
        try:
            self.exec_proc(env)
        except RecursionError:
            raise DomainError("expression too deep")
        return self

    def exec_proc(self, env, start=0):
        proc = env.proc
        ins = proc.instrs
        pc = start
        while True:
            if pc >= len(ins):
                if env is getattr(self, "main_env", None):
                    self.ended = self.ended or "fell_off_end"
                return
            self.steps += 1
            if self.steps > self.step_limit:
                raise StepLimit()
            i = ins[pc]
            k = i["k"]
            st = i["st"]
            if k == "nop":
                pc += 1
            elif k == "assign":
                v = self.eval(env, st.exp)
                if isinstance(v, tuple):
                    raise B09Error("TAB outside PRINT")
                t = st.target
                if t[0] == "var":
                    self.write(env, t[1], None, v)
                else:
                    subs = [self.num(env, a) for a in t[2]]
                    self.write(env, t[1], subs, v)
                pc += 1
            elif k == "run":
                self.do_run(env, st)
                pc += 1
            elif k == "if":
                pc = pc + 1 if self.truth(env, st.cond) else i["f"]
            elif k == "while":
                pc = pc + 1 if self.truth(env, st.cond) else i["f"]
            elif k == "until":
                pc = pc + 1 if self.truth(env, st.cond) else i["t"]
            elif k == "jump":
                pc = i["t"]
            elif k == "ifgoto":
                if self.truth(env, st.cond):
                    pc = self.label(env, st.target)
                    if pc is None:
                        return
                else:
                    pc += 1
            elif k == "goto":
                pc = self.label(env, st.target)
                if pc is None:
                    return
            elif k == "gosub":
                env.gosub.append(pc + 1)
                pc = self.label(env, st.target)
                if pc is None:
                    return
            elif k == "return":
                if not env.gosub:
                    raise B09Error("RETURN without GOSUB")
                pc = env.gosub.pop()
            elif k == "ongo":
                v = self.num(env, st.exp)
                if not sem.is_integer(v):
                    raise FormatDependent("non-integral ON selector")
                n = int(v)
                if 1 <= n <= len(st.targets):
                    if st.sub:
                        env.gosub.append(pc + 1)
                    pc = self.label(env, st.targets[n - 1])
                    if pc is None:
                        return
                else:
                    pc += 1
            elif k == "for":
                a = self.num(env, st.start)
                b = self.num(env, st.limit)
                c = self.num(env, st.step) if st.step is not None else Fraction(1)
                self.write(env, st.var, None, a)
                env.for_state[pc] = (b, c)
                v = self.read(env, st.var)
                if (c >= 0 and v > b) or (c < 0 and v < b):
                    pc = i["f"]
                else:
                    pc += 1
            elif k == "next":
                fi = i["t"]
                if fi not in env.for_state:
                    raise B09Error("NEXT reached without its FOR having been executed")
                b, c = env.for_state[fi]
                var = ins[fi]["st"].var
                v = self.read(env, var) + c
                self.write(env, var, None, v)
                v = self.read(env, var)
                if (c >= 0 and v > b) or (c < 0 and v < b):
                    pc += 1
                else:
                    pc = fi + 1
            elif k in ("end", "stop"):
                if env is getattr(self, "main_env", None):
                    self.ended = k
                    raise _Halt()
                return
            elif k == "print":
                self.events.append(self._print(env, st))
                pc += 1
            elif k == "input":
                self.events.append(("input", st.prompt or "", len(st.targets)))
                for t in st.targets:
                    want_str = self.kind_of(env, t[1]) == "STRING"
                    v = self.script_next("INPUT$" if want_str else "INPUT")
                    if not want_str:
                        v = Fraction(v)
                    subs = [self.num(env, a) for a in t[2]] if t[0] == "idx" else None
                    self.write(env, t[1], subs, v)
                pc += 1
            elif k == "read":
                for t in st.targets:
                    if env.data_ptr >= len(proc.data):
                        raise B09Error("READ past the end of DATA")
                    item = proc.data[env.data_ptr]
                    env.data_ptr += 1
                    v = self.eval(env, item)
                    kind = self.kind_of(env, t[1])
                    if kind == "STRING" and not isinstance(v, str):
                        raise B09Error("numeric DATA item read into string variable %s" % t[1])
                    if kind != "STRING" and isinstance(v, str):
                        raise B09Error("string DATA item read into numeric variable %s" % t[1])
                    subs = [self.num(env, a) for a in t[2]] if t[0] == "idx" else None
                    self.write(env, t[1], subs, v)
                pc += 1
            elif k == "restore":
                env.data_ptr = 0
                pc += 1
            elif k == "poke":
                self.events.append(("poke", self.num(env, st.addr), self.num(env, st.val)))
                pc += 1
            elif k == "onerror":
                env.on_error = st.target
                self.events.append(("onerror", st.target))
                pc += 1
            elif k == "error":
                raise B09RuntimeError(self.num(env, st.exp))
            elif k in ("tron", "troff", "os9"):
                pc += 1
            else:
                raise B09Error("statement %s cannot be executed by the reference interpreter" % k)

    def label(self, env, n):
        if self.stop_at_label_jump is not None:
            self.stop_at_label_jump.append(n)
            return None
        if n not in env.proc.labels:
            raise B09Error("jump to line %d, which labels no line" % n)
        return env.proc.labels[n]

    def _print(self, env, st):
        out = []
        for kind, e in st.items:
            if kind == "sep":
                out.append(("sep", e))
                continue
            v = self.eval(env, e)
            if isinstance(v, tuple):
                out.append(("tab", v[1]))
                continue
            if isinstance(v, bool):
                raise B09Error("BOOLEAN printed")
            if not isinstance(v, str):
                v = sem.numtok(v)
            if v != "":
                out.append(("text", v))
        newline = not (st.items and st.items[-1][0] == "sep")
        return ("print", tuple(out), newline)


class _Halt(Exception):
    pass


def _instr(i, s, p):
    s = sem.plain(s, "INSTR")
    p = sem.plain(p, "INSTR")
    if not sem.is_integer(i):
        raise DomainError("INSTR start")
    i = int(i)
    if p == "" or i < 1:
        raise DomainError("INSTR edge")
    if i > len(s):
        return Fraction(0)
    return Fraction(s.find(p, i - 1) + 1)


def _string(n, s):
    s = sem.plain(s, "STRING$")
    if not sem.is_integer(n) or not 0 <= int(n) <= 255 or s == "":
        raise DomainError("STRING$ arguments")
    return s[0] * int(n)


def _read_filter(s):
    return Fraction(0) if s == "" else sem.val_of(s)


# procedure name -> (number of inputs, function(interp, inputs) -> output | None for pure events)
CONTRACTS = {
    "ecb_int": (1, lambda it, a: sem.mathfn("INT", a[0])),
    "ecb_val": (1, lambda it, a: sem.val_of(a[0])),
    "ecb_str": (1, lambda it, a: sem.numtok(a[0])),
    "ecb_hex": (1, lambda it, a: sem.hex_of(a[0])),
    "ecb_instr": (3, lambda it, a: _instr(*a)),
    "ecb_string": (2, lambda it, a: _string(*a)),
    "ecb_read_filter": (1, lambda it, a: _read_filter(a[0])),
    "inkey": (0, lambda it, a: it.script_next("INKEY$")),
    "ecb_button": (1, lambda it, a: Fraction(it.script_next("BUTTON"))),
    "ecb_joystk": (1, lambda it, a: Fraction(it.script_next("JOYSTK"))),
    "ecb_point": (2, lambda it, a: Fraction(it.script_next("POINT"))),
}


def run_b09(text, script=None, step_limit=40000, strict_bool=True):
    """Parse + compile + run emitted text (no procedure header).  Raises
    parse.B09SyntaxError / B09Error for text that is not executable BASIC09."""
    lines = parse.parse_program(text)
    procs = compile_program(lines)
    it = B09Interp(procs, script=script, step_limit=step_limit, strict_bool=strict_bool)
    try:
        it.run_main("")
    except _Halt:
        pass
    return it
