"""Shared oracle pieces for C16-C19."""
from vf.core import Violation
from vf.img import model, run


def first_diff(a, b):
    n = min(len(a), len(b))
    for i in range(n):
        if a[i] != b[i]:
            return i
    return n if len(a) != len(b) else -1


def describe_diff(built, got):
    ch = 1 if built.kind == "pgm" else 3
    i = first_diff(built.samples, got)
    px = i // ch
    x, y = px % built.width, px // built.width
    return "first differing sample at pixel (x=%d, y=%d): expected %r, decoder wrote %r" % (
        x, y, tuple(built.samples[px * ch : px * ch + ch]), tuple(got[px * ch : px * ch + ch]))


def decode_exact(spec, case, stdin=False, stdout=False, tmpdir=None):
    """Build the file for `spec`, decode it with the real decoder and require
    exactly the expected image.  Returns (built, result, parsed)."""
    built = model.build(spec)
    res = run.run_decoder(spec["fmt"], built.data, built.argv, stdin=stdin, stdout=stdout, tmpdir=tmpdir)
    if res.status != "ok":
        raise Violation("decoder did not accept a well-formed %s file: %s %s" % (spec["fmt"], res.status, res.why), case)
    if res.out is None:
        raise Violation("decoder reported success but wrote no output", case)
    parsed = run.read_output(spec["fmt"], res.out)
    if not parsed.get("complete"):
        raise Violation("output is not a complete image: %s" % parsed.get("problem"), case)
    if (parsed["width"], parsed["height"]) != (built.width, built.height):
        raise Violation("output announces %dx%d, the format/options dictate %dx%d" % (parsed["width"], parsed["height"], built.width, built.height), case)
    if parsed["samples"] != built.samples:
        raise Violation("decoded image differs from the encoded one: " + describe_diff(built, parsed["samples"]), case)
    return built, res, parsed
