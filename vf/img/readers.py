"""Independent readers for the decoders' output: Netpbm (P5/P6) and PNG.

Written for the checks so that the judge of a decoder's output is not the
library the decoder itself uses (pypng / Pillow)."""
import struct
import zlib


class BadImage(Exception):
    pass


def read_netpbm(data):
    """-> dict(magic, width, height, maxval, channels, samples(bytes), declared, trailing)

    `samples` holds every byte after the header; `declared` = w*h*channels.
    Raises BadImage when the header itself is malformed."""
    pos = 0
    tokens = []
    n = len(data)
    while len(tokens) < 4:
        # skip whitespace and comments
        while pos < n and data[pos : pos + 1] in b" \t\r\n":
            pos += 1
        if pos < n and data[pos : pos + 1] == b"#":
            while pos < n and data[pos : pos + 1] not in b"\r\n":
                pos += 1
            continue
        start = pos
        while pos < n and data[pos : pos + 1] not in b" \t\r\n":
            pos += 1
        if start == pos:
            raise BadImage("truncated netpbm header")
        tokens.append(data[start:pos])
    # exactly one whitespace byte ends the header
    if pos >= n or data[pos : pos + 1] not in b" \t\r\n":
        raise BadImage("netpbm header not terminated")
    pos += 1
    magic = tokens[0]
    if magic not in (b"P5", b"P6"):
        raise BadImage("unexpected magic %r" % magic)
    try:
        w, h, maxval = int(tokens[1]), int(tokens[2]), int(tokens[3])
    except ValueError:
        raise BadImage("non-numeric netpbm header field")
    ch = 3 if magic == b"P6" else 1
    return {
        "magic": magic.decode(),
        "width": w,
        "height": h,
        "maxval": maxval,
        "channels": ch,
        "samples": data[pos:],
        "declared": w * h * ch,
    }


def _paeth(a, b, c):
    p = a + b - c
    pa, pb, pc = abs(p - a), abs(p - b), abs(p - c)
    if pa <= pb and pa <= pc:
        return a
    if pb <= pc:
        return b
    return c


def read_png(data):
    """-> dict(width, height, bitdepth, colortype, palette[list of rgb], rows[list of list of index or tuple])

    Supports what the tool can write: colour type 3 (palette) with bit depth
    1/2/4/8, and 8-bit grey/RGB/RGBA for completeness.  Raises BadImage for a
    structurally broken file (bad signature, CRC, IDAT size mismatch...)."""
    if data[:8] != b"\x89PNG\r\n\x1a\n":
        raise BadImage("bad PNG signature")
    pos = 8
    ihdr = None
    plte = None
    idat = b""
    seen_end = False
    while pos < len(data):
        if pos + 8 > len(data):
            raise BadImage("truncated chunk header")
        (ln,) = struct.unpack(">I", data[pos : pos + 4])
        typ = data[pos + 4 : pos + 8]
        body = data[pos + 8 : pos + 8 + ln]
        if len(body) != ln or pos + 12 + ln > len(data):
            raise BadImage("truncated chunk %r" % typ)
        (crc,) = struct.unpack(">I", data[pos + 8 + ln : pos + 12 + ln])
        if zlib.crc32(typ + body) & 0xFFFFFFFF != crc:
            raise BadImage("bad CRC in chunk %r" % typ)
        pos += 12 + ln
        if typ == b"IHDR":
            ihdr = struct.unpack(">IIBBBBB", body)
        elif typ == b"PLTE":
            if ln % 3:
                raise BadImage("PLTE length not a multiple of 3")
            plte = [tuple(body[i : i + 3]) for i in range(0, ln, 3)]
        elif typ == b"IDAT":
            idat += body
        elif typ == b"IEND":
            seen_end = True
            break
    if ihdr is None or not seen_end:
        raise BadImage("missing IHDR or IEND")
    w, h, bd, ct, comp, flt, il = ihdr
    if il != 0:
        raise BadImage("interlaced PNG not expected")
    chans = {0: 1, 2: 3, 3: 1, 4: 2, 6: 4}.get(ct)
    if chans is None:
        raise BadImage("bad colour type")
    try:
        raw = zlib.decompress(idat)
    except zlib.error as e:
        raise BadImage("IDAT does not inflate: %s" % e)
    bpp = max(1, chans * bd // 8)
    stride = (w * chans * bd + 7) // 8
    if len(raw) != (stride + 1) * h:
        raise BadImage("IDAT holds %d bytes, header needs %d" % (len(raw), (stride + 1) * h))
    rows = []
    prev = bytearray(stride)
    p = 0
    for y in range(h):
        ft = raw[p]
        line = bytearray(raw[p + 1 : p + 1 + stride])
        p += 1 + stride
        if ft == 0:
            pass
        elif ft == 1:
            for i in range(bpp, stride):
                line[i] = (line[i] + line[i - bpp]) & 255
        elif ft == 2:
            for i in range(stride):
                line[i] = (line[i] + prev[i]) & 255
        elif ft == 3:
            for i in range(stride):
                a = line[i - bpp] if i >= bpp else 0
                line[i] = (line[i] + ((a + prev[i]) >> 1)) & 255
        elif ft == 4:
            for i in range(stride):
                a = line[i - bpp] if i >= bpp else 0
                c = prev[i - bpp] if i >= bpp else 0
                line[i] = (line[i] + _paeth(a, prev[i], c)) & 255
        else:
            raise BadImage("bad filter type %d" % ft)
        prev = line
        if bd == 8:
            if chans == 1:
                rows.append(list(line))
            else:
                rows.append([tuple(line[i : i + chans]) for i in range(0, len(line), chans)])
        elif bd in (1, 2, 4):
            per = 8 // bd
            mask = (1 << bd) - 1
            row = []
            for x in range(w):
                b = line[x // per]
                shift = (per - 1 - (x % per)) * bd
                row.append((b >> shift) & mask)
            rows.append(row)
        else:
            raise BadImage("unsupported bit depth %d" % bd)
    return {"width": w, "height": h, "bitdepth": bd, "colortype": ct, "palette": plte, "rows": rows}
