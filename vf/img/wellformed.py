"""Input-side classification of (possibly damaged) image files.

Given the bytes and options handed to a decoder, say - from the format
grammar alone, never from the decoder's behaviour - which structural
expectations the file meets.  C19 uses the flags to tell a *listed* finding
(e.g. "MAX body shorter than its header announces") from a new violation."""
import math

from vf.img import model


def _opt(argv, name, default=None):
    argv = list(argv)
    if name in argv:
        return int(argv[argv.index(name) + 1])
    return default


def classify(fmt, data, argv=()):
    """-> set of flags describing how `data` deviates from a well-formed file."""
    flags = set()
    n = len(data)
    if fmt == "hrs":
        w = _opt(argv, "-w", 320)
        h = _opt(argv, "-r", 192)
        skip = _opt(argv, "-s", 0) or 0
        need = skip + 16 + (w // 2) * h
        if n < need:
            flags.add("short")
        elif n > need:
            flags.add("trailing")
    elif fmt == "pix":
        k = int(math.isqrt(n // 2)) if n % 2 == 0 else -1
        if n % 2 or k * k * 2 != n or n == 0:
            flags.add("pix_size_not_2k2")
    elif fmt == "max":
        skip = _opt(argv, "-s", 0) or 0
        body = data[skip:]
        if "-newsroom" in argv:
            if len(body) < 2:
                flags.add("short_header")
                flags.add("max_body_short")  # no header, hence certainly no complete body
            else:
                cols, rows = body[0] * 8, body[1]
                if len(body) - 2 < (cols >> 3) * rows:
                    flags.add("max_body_short")
        else:
            if len(body) < 5:
                flags.add("short_header")
                flags.add("max_body_short")  # header incomplete, hence certainly no complete body
            else:
                cols = _opt(argv, "-w", 256)
                rows = _opt(argv, "-r", None)
                if body[0] != 0:
                    flags.add("max_bad_first_byte")
                if rows is None:
                    size = body[1] * 256 + body[2]
                    rows = 8 * size // cols
                    if cols * rows // 8 != size:
                        flags.add("max_size_inconsistent")
                if len(body) - 5 < (cols >> 3) * rows:
                    flags.add("max_body_short")
    elif fmt == "mge":
        if n < 51:
            flags.add("short_header")
        else:
            if data[0] != 0:
                flags.add("mge_bad_first_byte")
            if any(b >= 64 for b in data[1:17]):
                flags.add("palette_ge_64")
            if 0 not in data[19:49]:
                flags.add("mge_title_without_nul")
            body = data[51:]
            if data[18] != 0:  # raw
                if len(body) < 32000:
                    flags.add("short")
                elif len(body) > 32000:
                    flags.add("trailing")
            else:
                total = 0
                i = 0
                ok = False
                pairs_after_full = 0
                while i < len(body):
                    c = body[i]
                    if c == 0:
                        ok = True
                        break
                    if i + 1 >= len(body):
                        break
                    if total >= 32000:
                        pairs_after_full += 1
                    total += c
                    i += 2
                if not ok:
                    flags.add("short")
                elif total < 32000:
                    flags.add("mge_rle_terminator_before_image_is_full")
                elif pairs_after_full:
                    flags.add("mge_rle_pairs_after_image_is_full")
                elif total > 32000:
                    flags.add("mge_rle_last_run_overshoots")  # handled correctly by the unchanged decoder (run is clipped)
    elif fmt == "rat":
        if n < 19:
            flags.add("short_header")
        else:
            esc = data[0]
            if data[1] == 0:
                flags.add("rat_not_packed")
            if any(b >= 64 for b in data[3:19]):
                flags.add("palette_ge_64")
            i = 19
            total = 0
            want = 199 * 160
            while total < want and i < n:
                if data[i] != esc:
                    total += 1
                    i += 1
                else:
                    if i + 2 >= n:
                        i = n + 1
                        break
                    total += data[i + 1]
                    i += 3
            if total < want or i > n:
                flags.add("short")
            elif total > want:
                flags.add("rat_run_overshoot")
            elif i < n:
                flags.add("trailing")
    elif fmt == "cm3":
        if n < 30:
            flags.add("short_header")
        else:
            pages = 2 if data[0] & 0x80 else 1
            if any(b >= 64 for b in data[1:17]):
                flags.add("palette_ge_64")
            # walk the line structure with the format grammar
            i = 29 + (0 if data[0] & 1 else 243)
            try:
                for p in range(pages):
                    lines = data[i]
                    i += 1
                    if lines != 192:
                        flags.add("cm3_line_count_not_192")
                    for ln in range(lines):
                        contr = data[i]
                        i += 1
                        if contr >= 128:
                            i += 160
                        else:
                            b1 = data[i : i + 20]
                            b2 = data[i + 20 : i + 20 + contr]
                            if len(b1) < 20 or len(b2) < contr:
                                raise IndexError
                            i += 20 + contr
                            k = 0
                            for x in range(160):
                                if (b1[x // 8] >> (7 - x % 8)) & 1:
                                    if k // 8 >= len(b2):
                                        flags.add("cm3_literal_bits_exhausted")
                                        raise IndexError
                                    if (b2[k // 8] >> (7 - k % 8)) & 1:
                                        i += 1
                                    k += 1
                        if i > n:
                            raise IndexError
                if i < n:
                    flags.add("trailing")
            except IndexError:
                flags.add("short")
    elif fmt == "vef":
        if n < 18:
            flags.add("short_header")
            if n >= 2 and data[0] != 128:
                flags.add("vef_pixel_count_mismatch")  # raw layout with no pixel data at all
            else:
                flags.add("vef_squashed_truncated")
        else:
            typ = data[1]
            if typ not in model.VEF_TYPES:
                flags.add("vef_unknown_type")
            else:
                w, h, colors, rec = model.VEF_TYPES[typ]
                if any(b >= 64 for b in data[2:18]):
                    flags.add("vef_palette_ge_64")
                want = rec * 400
                if data[0] != 128:
                    if n - 18 != want:
                        flags.add("vef_pixel_count_mismatch")
                else:
                    i = 18
                    total = 0
                    try:
                        for k in range(400):
                            cnt = data[i]
                            recb = data[i + 1 : i + 1 + cnt]
                            if len(recb) < cnt:
                                raise IndexError
                            i += 1 + cnt
                            j = 0
                            got = 0
                            while j < cnt:
                                hd = recb[j]
                                j += 1
                                if hd > 128:
                                    if j >= cnt:
                                        raise IndexError
                                    got += hd - 128
                                    j += 1
                                else:
                                    if j + hd > cnt:
                                        raise IndexError
                                    got += hd
                                    j += hd
                            total += min(got, rec)
                            if got != rec:
                                flags.add("vef_record_length_mismatch")
                        if total != want:
                            flags.add("vef_pixel_count_mismatch")
                        if i < n:
                            flags.add("trailing")
                    except IndexError:
                        flags.add("vef_squashed_truncated")  # the unchanged decoder raises IndexError here: a reported failure
    return flags
