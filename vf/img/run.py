"""Run a real decoder on bytes and classify what happened."""
import importlib
import io
import os
import signal
import sys

from vf import tool
from vf.img import model, readers


class _OutBuf(io.BytesIO):
    """BytesIO that keeps its contents after close()."""

    def __init__(self):
        super().__init__()
        self.final = None
        self.name = "<stdout>"

    def close(self):
        if self.final is None:
            self.final = self.getvalue()
        super().close()


class _Std:
    def __init__(self, buf):
        self.buffer = buf
        self._t = io.StringIO()

    def write(self, s):
        return self._t.write(s)

    def flush(self):
        pass


class Timeout(Exception):
    pass


def _alarm(signum, frame):
    raise Timeout()


class Result:
    def __init__(self):
        self.status = None  # "ok" | "fail"
        self.why = ""
        self.out = None  # bytes of the output file / stream (None when absent)

    def __repr__(self):
        return "Result(%s,%s,%s)" % (self.status, self.why, None if self.out is None else len(self.out))


def run_decoder(fmt, data, argv=(), stdin=False, stdout=False, tmpdir=None, limit=60, in_name=None, prefill=0):
    """Feed `data` to the decoder of `fmt` with option arguments `argv`.

    stdin/stdout=True use the tool's default streams (substituted in-process
    by objects with a `.buffer`) where the tool offers them."""
    modname = model.DECODER_MODULE[fmt]
    mod = importlib.import_module("coco." + modname)
    res = Result()
    own_tmp = None
    if tmpdir is None:
        own_tmp = tool.scratch_dir()
        tmpdir = own_tmp.__enter__()
    in_path = os.path.join(tmpdir, in_name or ("in." + fmt))
    out_path = os.path.join(tmpdir, "out" + model.EXT[fmt])
    if os.path.exists(out_path):
        os.remove(out_path)
    if prefill and not stdout:
        # the output file exists already and is longer than the image that will be written
        with open(out_path, "wb") as f:
            f.write(b"\xa5" * prefill)
    args = list(argv)
    old = (sys.stdin, sys.stdout, sys.stderr)
    outbuf = _OutBuf()
    try:
        if not stdin:
            with open(in_path, "wb") as f:
                f.write(data)
            args.append(in_path)
            sys.stdin = _Std(io.BytesIO(b""))
        else:
            if stdin == "dash":
                args.append("-")  # the conventional name of standard input
            sys.stdin = _Std(io.BytesIO(data))
        if not stdout:
            args.append(out_path)
            sys.stdout = _Std(_OutBuf())
        else:
            if stdout == "dash":
                args.append("-")
            sys.stdout = _Std(outbuf)
        sys.stderr = _Std(_OutBuf())
        old_handler = signal.signal(signal.SIGALRM, _alarm)
        signal.alarm(limit)
        try:
            mod.start(args)
            res.status = "ok"
        except Timeout:
            res.status = "hang"
            res.why = "no result within %d s" % limit
        except SystemExit as e:
            if e.code in (0, None):
                res.status = "ok"
            else:
                res.status = "fail"
                res.why = "SystemExit(%r)" % (e.code,)
        except BaseException as e:  # noqa - any exception is a reported failure
            if isinstance(e, KeyboardInterrupt):
                raise
            res.status = "fail"
            res.why = "%s: %s" % (type(e).__name__, str(e)[:120])
        finally:
            signal.alarm(0)
            signal.signal(signal.SIGALRM, old_handler)
    finally:
        sys.stdin, sys.stdout, sys.stderr = old
    if stdout:
        res.out = outbuf.final if outbuf.final is not None else (outbuf.getvalue() if not outbuf.closed else None)
    else:
        if os.path.exists(out_path):
            with open(out_path, "rb") as f:
                res.out = f.read()
            os.remove(out_path)
        else:
            res.out = None
    if res.status == "ok" and res.out is None and not stdout:
        # maxtoppm's documented failure: returns False and removes the output
        res.status = "fail"
        res.why = "output file removed"
    if not stdin and os.path.exists(in_path):
        os.remove(in_path)
    if own_tmp is not None:
        own_tmp.__exit__(None, None, None)
    return res


def read_output(fmt, out):
    """Parse decoder output with the independent readers.
    -> dict(width, height, rgb/grey samples bytes, complete(bool), problem(str))"""
    if fmt == "vef":
        try:
            png = readers.read_png(out)
        except readers.BadImage as e:
            return {"problem": "PNG: %s" % e, "complete": False}
        w, h = png["width"], png["height"]
        pal = png["palette"]
        if png["colortype"] != 3 or pal is None:
            return {"problem": "PNG is not a palette image", "complete": False, "width": w, "height": h}
        samples = bytearray()
        for row in png["rows"]:
            for idx in row:
                if idx >= len(pal):
                    return {"problem": "pixel index %d outside palette of %d" % (idx, len(pal)), "complete": False, "width": w, "height": h}
                samples += bytes(pal[idx])
        return {"width": w, "height": h, "samples": bytes(samples), "complete": True, "problem": "", "palette": pal}
    try:
        img = readers.read_netpbm(out)
    except readers.BadImage as e:
        return {"problem": "netpbm: %s" % e, "complete": False}
    want_magic = "P5" if fmt == "pix" else "P6"
    prob = ""
    if img["magic"] != want_magic:
        prob = "magic %s instead of %s" % (img["magic"], want_magic)
    elif img["maxval"] != 255:
        prob = "maxval %d" % img["maxval"]
    elif len(img["samples"]) != img["declared"]:
        prob = "header announces %dx%d = %d samples, file carries %d" % (
            img["width"], img["height"], img["declared"], len(img["samples"]))
    return {"width": img["width"], "height": img["height"], "samples": img["samples"], "complete": prob == "", "problem": prob,
            "declared": img["declared"]}
