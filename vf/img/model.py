"""Format models: reference encoders (nondeterministic where the format lets
the encoder choose) and expected decodings, written from the format
descriptions in DESIGN.md appendix E, independently of the decoders' code
layout.  Everything is a deterministic function of a JSON-able `spec`."""
import random

# ----------------------------------------------------------------- colours


def coco3_rgb(c):
    """Six-bit CoCo 3 colour code -> (r, g, b): R=(2*b5+b2)*85, G=(2*b4+b1)*85, B=(2*b3+b0)*85.
    Only the low six bits of a palette byte are significant."""
    b = [(c >> i) & 1 for i in range(6)]
    return ((2 * b[5] + b[2]) * 85, (2 * b[4] + b[1]) * 85, (2 * b[3] + b[0]) * 85)


# MGE composite -> RGB code permutation (transcribed: documented behaviour, see DESIGN 3.5)
MGE_C2R = [
    0, 21, 2, 20, 6, 49, 35, 4, 33, 5, 14, 1, 12, 10, 3, 28,
    7, 17, 16, 22, 48, 34, 37, 32, 44, 40, 42, 13, 8, 11, 24, 26,
    56, 19, 18, 50, 54, 52, 38, 36, 46, 45, 41, 15, 9, 25, 27, 30,
    63, 58, 23, 51, 55, 53, 39, 60, 47, 61, 43, 57, 29, 31, 59, 62,
]

# MAX pixel-mode colour tables (transcribed: documented behaviour)
MAX_BR2 = [(0, 0, 0), (255, 85, 0), (0, 170, 255), (255, 255, 255)]
MAX_BR3 = [(0, 0, 0), (255, 0, 0), (0, 0, 255), (255, 255, 255)]
MAX_SEMIG = [
    (0, 0, 0), (0, 255, 0), (255, 255, 0), (0, 0, 255), (255, 0, 0),
    (255, 255, 255), (0, 211, 170), (204, 0, 255), (255, 128, 0),
]
MAX_MODES = ["bw", "br", "rb", "br2", "rb2", "br3", "rb3", "s10", "s11"]

# ----------------------------------------------------------------- content

PATTERNS = [
    "random", "constant", "ramp", "nibble_checker", "pair_checker", "byte_checker",
    "single_odd", "rows_repeat", "runs", "low_values", "all_ff", "all_00", "blank_top", "blank_bottom",
]


def gen_body(pattern, n, row_bytes, rng, special=None):
    """n packed bytes following a named pattern (row_bytes = bytes per image row)."""
    if pattern == "random":
        return bytearray(rng.getrandbits(8) for _ in range(n))
    if pattern == "constant":
        v = rng.getrandbits(8)
        return bytearray([v]) * n
    if pattern == "all_ff":
        return bytearray([255]) * n
    if pattern == "all_00":
        return bytearray(n)
    if pattern == "ramp":
        o = rng.getrandbits(8)
        return bytearray((o + i) & 255 for i in range(n))
    if pattern == "nibble_checker":
        a, b = rng.getrandbits(4), rng.getrandbits(4)
        v1, v2 = (a << 4) | b, (b << 4) | a
        return bytearray(v1 if ((i // row_bytes) + i) % 2 == 0 else v2 for i in range(n))
    if pattern == "pair_checker":
        v = rng.choice([0x1B, 0xE4, 0x27, 0x4E, 0x93, 0xC6])
        return bytearray(v if (i // row_bytes) % 2 == 0 else (~v & 255) for i in range(n))
    if pattern == "byte_checker":
        a, b = rng.getrandbits(8), rng.getrandbits(8)
        return bytearray(a if i % 2 == 0 else b for i in range(n))
    if pattern == "single_odd":
        v = rng.getrandbits(8)
        body = bytearray([v]) * n
        if n:
            body[rng.randrange(n)] = (v + 1 + rng.randrange(255)) & 255
        return body
    if pattern == "rows_repeat":
        rows = max(1, n // max(1, row_bytes))
        out = bytearray()
        row = bytearray(rng.getrandbits(8) for _ in range(row_bytes))
        for r in range(rows + 1):
            if rng.random() < 0.4:
                row = bytearray(rng.getrandbits(8) for _ in range(row_bytes))
            elif rng.random() < 0.5:
                row = bytearray(row)
                if row_bytes:
                    row[rng.randrange(row_bytes)] = rng.getrandbits(8)
            out += row
        return out[:n] + bytearray(max(0, n - len(out)))
    if pattern == "runs":
        out = bytearray()
        vals = [rng.getrandbits(8) for _ in range(4)]
        if special is not None:
            vals.append(special)
        while len(out) < n:
            ln = rng.choice([1, 1, 2, 3, 5, 17, 127, 128, 129, 254, 255, 256, 300, row_bytes, row_bytes + 1, 700])
            out += bytearray([rng.choice(vals)]) * ln
        return out[:n]
    if pattern.startswith(("blank_top", "blank_bottom")):
        # a band of 1..16 all-zero rows at the top (or bottom) of an otherwise random picture: margins, letterboxing
        # ("blank_top_8" fixes the height of the band)
        tail_ = pattern.rsplit("_", 1)[-1]
        k = int(tail_) if tail_.isdigit() else rng.choice([1, 2, 7, 8, 8, 9, 16])
        pattern = "blank_top" if pattern.startswith("blank_top") else "blank_bottom"
        rows_ = max(1, n // max(1, row_bytes))
        k = min(k, max(0, rows_ - 1))
        body = bytearray(rng.getrandbits(8) | 1 for _ in range(n))
        if pattern == "blank_top":
            body[: k * row_bytes] = bytes(k * row_bytes)
        else:
            body[n - k * row_bytes :] = bytes(k * row_bytes)
        return body
    if pattern == "low_values":
        return bytearray(rng.randrange(4) * 17 for _ in range(n))
    raise ValueError(pattern)


def restrict_low_nibble(body, limit):
    """Known-finding switch for RAT: keep the right-hand pixel of every byte below `limit`."""
    return bytearray((b & 0xF0) | ((b & 0x0F) % limit) for b in body)


# ----------------------------------------------------------------- expectations


def nibble_rows_rgb(body, row_bytes, rows, palette):
    """high nibble = left pixel; -> RGB sample bytes"""
    lut = [bytes(coco3_rgb(palette[i] & 63)) for i in range(16)]
    out = bytearray()
    for i in range(row_bytes * rows):
        b = body[i]
        out += lut[b >> 4]
        out += lut[b & 15]
    return bytes(out)


# ----------------------------------------------------------------- formats


class Built:
    def __init__(self, data, argv, kind, width, height, samples, info=None):
        self.data = bytes(data)
        self.argv = list(argv)  # option arguments (no file names)
        self.kind = kind  # ppm / pgm / png
        self.width = width
        self.height = height
        self.samples = samples  # bytes: RGB triples (ppm/png) or grey (pgm)
        self.info = info or {}


def _rng(spec):
    return random.Random(spec.get("seed", 0))


def _palette(spec, rng):
    pal = spec.get("palette")
    if pal is None:
        pal = [rng.randrange(64) for _ in range(16)]
    return list(pal)


def build_hrs(spec):
    rng = _rng(spec)
    w = spec.get("w", 320)
    h = spec.get("h", 192)
    skip = spec.get("skip", 0)
    pal = _palette(spec, rng)
    rb = w // 2
    body = gen_body(spec.get("pattern", "random"), rb * h, max(1, rb), rng)
    junk = bytes(rng.getrandbits(8) for _ in range(skip))
    argv = []
    if "w" in spec:
        argv += ["-w", str(w)]
    if "h" in spec:
        argv += ["-r", str(h)]
    if "skip" in spec:
        argv += ["-s", str(skip)]
    data = junk + bytes(pal) + bytes(body) + bytes(spec.get("trailing", b""))
    # expectation: w x h image; an odd width has no defined last column in the
    # format (two pixels per byte) - recorded for C18, not generated for C16
    samples = nibble_rows_rgb(body, rb, h, pal)
    return Built(data, argv, "ppm", w, h, samples, {"row_samples": rb * 2, "distinct": len(set(body))})


def build_pix(spec):
    rng = _rng(spec)
    side = spec.get("side", 16)
    n = side * side // 2
    body = gen_body(spec.get("pattern", "random"), n, max(1, side // 2), rng)
    half = side // 2
    out = bytearray(side * side)
    for y in range(side):
        for x in range(half):
            v = body[y * half + x]
            out[(2 * x) * side + y] = 255 - 17 * (v >> 4)
            out[(2 * x + 1) * side + y] = 255 - 17 * (v & 15)
    return Built(body, [], "pgm", side, side, bytes(out), {"distinct": len(set(body))})


def max_row_expect(row, mode):
    """One row of packed bits -> RGB samples for a MAX pixel mode."""
    out = bytearray()
    if mode == "bw":
        for v in row:
            for k in range(8):
                out += b"\xff\xff\xff" if (v >> (7 - k)) & 1 else b"\x00\x00\x00"
        return out
    if mode in ("br", "rb"):
        # the artifact filter as described in the decoder's comments
        x = -100 if mode == "br" else 100
        oy = r2 = g2 = b2 = 0

        def clip(v):
            return 255 if v > 255 else (0 if v < 0 else v)

        for v in row:
            # NB: the phase variable restarts for every byte in the tool (x is
            # reassigned per byte); eight pixels per byte keeps the phase even
            x = -100 if mode == "br" else 100
            for k in range(8):
                ny = ((v >> (7 - k)) & 1) * 255
                y = (oy + ny + (ny >> 2)) >> 1
                i = (x * (y - oy)) >> 7
                r = clip(int(y + 0.9563 * i))
                g = clip(int(y - 0.2721 * i))
                b = clip(int(y - 1.1070 * i))
                out += bytes([(r + r2) >> 1, (g + g2) >> 1, (b + b2) >> 1])
                oy = ny
                x = -x
                r2, g2, b2 = r, g, b
        return out
    table, base, swap = {
        "br2": (MAX_BR2, 0, False),
        "rb2": (MAX_BR2, 0, True),
        "br3": (MAX_BR3, 0, False),
        "rb3": (MAX_BR3, 0, True),
        "s10": (MAX_SEMIG, 1, True),
        "s11": (MAX_SEMIG, 5, True),
    }[mode]
    for v in row:
        for k in range(4):
            hi = (v >> (7 - 2 * k)) & 1
            lo = (v >> (6 - 2 * k)) & 1
            idx = base + ((hi + 2 * lo) if swap else (2 * hi + lo))
            out += bytes(table[idx]) * 2
    return out


def build_max(spec):
    """MAX (5-byte header) or ART (-newsroom, 2-byte header)."""
    rng = _rng(spec)
    mode = spec.get("mode", "bw")
    newsroom = spec.get("newsroom", False)
    skip = spec.get("skip", 0)
    argv = []
    if mode != "bw":
        argv.append("-" + mode)
    junk = bytes(rng.getrandbits(8) for _ in range(skip))
    if "skip" in spec:
        argv += ["-s", str(skip)]
    if newsroom:
        cols = spec.get("cols", 64)
        rows = spec.get("rows", 8)
        argv.append("-newsroom")
        head = bytes([cols // 8, rows])
    else:
        cols = spec.get("cols", 256)
        if "cols" in spec:
            argv += ["-w", str(cols)]
        if "rows_opt" in spec:
            rows = spec["rows_opt"]
            argv += ["-r", str(rows)]
            size = spec.get("size_field", rng.randrange(65536))
        else:
            rows = spec.get("rows", 16)
            size = cols * rows // 8
        head = bytes([0, (size >> 8) & 255, size & 255, rng.getrandbits(8), rng.getrandbits(8)])
    rb = cols // 8
    body = gen_body(spec.get("pattern", "random"), rb * rows, max(1, rb), rng)
    samples = bytearray()
    for r in range(rows):
        samples += max_row_expect(body[r * rb : (r + 1) * rb], mode)
    data = junk + head + bytes(body) + bytes(spec.get("trailing", b""))
    return Built(data, argv, "ppm", cols, rows, bytes(samples), {"row_samples": rb * 8, "distinct": len(set(body))})


def _mge_title(spec, rng):
    t = spec.get("title")
    if t is None:
        nulpos = rng.randrange(30)
        t = bytes(rng.randrange(32, 127) for _ in range(nulpos)) + b"\0" + bytes(rng.getrandbits(8) for _ in range(29 - nulpos))
    return bytes(t)


def rle_pairs(body, rng, policy):
    """(count, value) pairs; any split of a run into counts 1..255 is valid."""
    out = bytearray()
    i = 0
    n = len(body)
    stats = {"max_run": 0, "split_run": 0, "one": 0}
    while i < n:
        v = body[i]
        j = i
        while j < n and body[j] == v and j - i < 255:
            j += 1
        L = j - i
        r = rng.random()
        if policy == "max" or r < 0.5:
            c = L
            if L == 255:
                stats["max_run"] += 1
        elif r < 0.8:
            c = rng.randint(1, L)
            if c < L:
                stats["split_run"] += 1
        else:
            c = 1
            stats["one"] += 1
        out += bytes([c, v])
        i += c
    out.append(0)
    return out, stats


def build_mge(spec):
    rng = _rng(spec)
    pal = _palette(spec, rng)
    composite = spec.get("composite", False)
    compressed = spec.get("compressed", False)
    n = 160 * 200
    body = gen_body(spec.get("pattern", "random"), n, 160, rng)
    head = bytes([0]) + bytes(pal)
    head += bytes([spec.get("monitor_byte", 1 + rng.randrange(255)) if composite else 0])
    enc_stats = {}
    if compressed:
        payload, enc_stats = rle_pairs(body, rng, spec.get("policy", "mixed"))
        head += bytes([0])
    else:
        payload = bytes(body)
        head += bytes([spec.get("storage_byte", 1 + rng.randrange(255))])
    head += _mge_title(spec, rng)
    head += bytes([rng.getrandbits(8), rng.getrandbits(8)])  # cycle rate, cycle range
    eff = [MGE_C2R[p & 63] if composite else p for p in pal] if all(p < 64 for p in pal) else None
    if eff is None:
        eff = [MGE_C2R[p] if (composite and p < 64) else p for p in pal]
    samples = nibble_rows_rgb(body, 160, 200, eff)
    data = head + bytes(payload) + bytes(spec.get("trailing", b""))
    return Built(data, [], "ppm", 320, 200, samples, {"enc": enc_stats, "distinct": len(set(body))})


def build_rat(spec):
    rng = _rng(spec)
    pal = _palette(spec, rng)
    esc = spec.get("escape", rng.getrandbits(8))
    n = 199 * 160
    body = gen_body(spec.get("pattern", "runs"), n, 160, rng, special=esc)
    if spec.get("low_nibble_limit"):
        body = restrict_low_nibble(body, spec["low_nibble_limit"])
    out = bytearray([esc, spec.get("packed_byte", 1 + rng.randrange(255)), rng.getrandbits(8)]) + bytes(pal)
    stats = {"max_run": 0, "split_run": 0, "literal": 0, "escaped_literal": 0, "group": 0}
    policy = spec.get("policy", "mixed")
    i = 0
    while i < n:
        v = body[i]
        j = i
        while j < n and body[j] == v and j - i < 255:
            j += 1
        L = j - i
        must_group = v == esc
        r = rng.random()
        if not must_group and (policy == "literal" or (policy == "mixed" and (L == 1 and r < 0.8 or r < 0.25))):
            out.append(v)
            stats["literal"] += 1
            i += 1
            continue
        if policy == "max" or r < 0.6:
            c = L
            if L == 255:
                stats["max_run"] += 1
        else:
            c = rng.randint(1, L)
            if c < L:
                stats["split_run"] += 1
        if must_group:
            stats["escaped_literal"] += 1
        stats["group"] += 1
        out += bytes([esc, c, v])
        i += c
    samples = nibble_rows_rgb(body, 160, 199, pal)
    return Built(bytes(out) + bytes(spec.get("trailing", b"")), [], "ppm", 320, 199, samples, {"enc": stats, "escape": esc, "distinct": len(set(body))})


def build_cm3(spec):
    rng = _rng(spec)
    pal = _palette(spec, rng)
    pages = 2 if spec.get("two_pages", False) else 1
    no_patterns = spec.get("no_patterns", False)
    coded = spec.get("coded", False)  # False: every line raw (C16)
    typ = (0x80 if pages == 2 else 0) | (1 if no_patterns else 0) | (rng.getrandbits(6) << 1)
    rows = 192 * pages
    body = gen_body(spec.get("pattern", "rows_repeat" if coded else "random"), 160 * rows, 160, rng)
    out = bytearray([typ]) + bytes(pal)
    out += bytes(rng.getrandbits(8) for _ in range(2))  # animation / cycle rates
    out += bytes(rng.getrandbits(8) for _ in range(8))  # cycle table
    out += bytes(rng.getrandbits(8) for _ in range(2))  # animation / cycle flags
    if not no_patterns:
        out += bytes(rng.getrandbits(8) for _ in range(243))
    stats = {"raw_lines": 0, "coded_lines": 0, "copy_left": 0, "copy_left_col0": 0, "copy_up": 0, "literal": 0,
             "copy_up_across_page": 0, "padded_literal_bits": 0, "second_mask_empty": 0}
    linbuf = [0] * 160
    p_raw = spec.get("p_raw", 0.2)
    p_copy = spec.get("p_copy", 0.85)  # how eagerly the encoder copies instead of storing a literal
    prefer = spec.get("prefer")  # "left" / "up": which copy it takes when both are possible
    for page in range(pages):
        out.append(192)
        for ln in range(192):
            row = body[(page * 192 + ln) * 160 : (page * 192 + ln + 1) * 160]
            if not coded or rng.random() < p_raw:
                out.append(128 + rng.randrange(128))
                out += row
                linbuf = list(row)
                stats["raw_lines"] += 1
                continue
            changed = []
            litbits = []
            stream = bytearray()
            for x in range(160):
                t = row[x]
                options = ["lit"]
                if linbuf[(x - 1) % 160] == t:
                    options.append("left")
                if linbuf[x] == t:
                    options.append("up")
                r = rng.random()
                if len(options) > 1 and r < p_copy:
                    ch = prefer if prefer in options else rng.choice(options[1:])
                else:
                    ch = "lit"
                if ch == "left":
                    changed.append(0)
                    stats["copy_left"] += 1
                    if x == 0:
                        stats["copy_left_col0"] += 1
                elif ch == "up":
                    changed.append(1)
                    litbits.append(0)
                    stats["copy_up"] += 1
                    if page == 1 and ln == 0:
                        stats["copy_up_across_page"] += 1
                else:
                    changed.append(1)
                    litbits.append(1)
                    stream.append(t)
                    stats["literal"] += 1
                linbuf[x] = t
            need = (len(litbits) + 7) // 8
            contr = need
            if need == 0:
                stats["second_mask_empty"] += 1  # a line that only copies from the left: the control byte is 0, the second mask has no bytes
            if rng.random() < 0.2:
                contr = min(127, need + rng.randrange(4))
                if contr > need:
                    stats["padded_literal_bits"] += 1
            b1 = bytearray(20)
            for x, c in enumerate(changed):
                if c:
                    b1[x // 8] |= 1 << (7 - x % 8)
            b2 = bytearray(contr)
            for k, c in enumerate(litbits):
                if c:
                    b2[k // 8] |= 1 << (7 - k % 8)
            # unused low bits of the last literal byte and padding bytes are free
            for k in range(len(litbits), contr * 8):
                if rng.random() < 0.5:
                    b2[k // 8] |= 1 << (7 - k % 8)
            out.append(contr)
            out += b1 + b2 + stream
            stats["coded_lines"] += 1
    samples = nibble_rows_rgb(body, 160, rows, pal)
    return Built(bytes(out) + bytes(spec.get("trailing", b"")), [], "ppm", 320, rows, samples, {"enc": stats, "distinct": len(set(body))})


VEF_TYPES = {0: (320, 200, 16, 80), 1: (640, 200, 4, 80), 3: (320, 200, 4, 40)}


def vef_squash_record(chunk, rng, policy, stats):
    out = bytearray()
    i = 0
    n = len(chunk)
    while i < n:
        v = chunk[i]
        j = i
        while j < n and chunk[j] == v and j - i < 127:
            j += 1
        L = j - i
        r = rng.random()
        if L >= 2 and (policy == "max" or r < 0.6) or (L == 1 and r < 0.1):
            c = L if (policy == "max" or rng.random() < 0.6) else rng.randint(1, L)
            if c < L:
                stats["split_run"] += 1
            if c == n:
                stats["full_record_run"] += 1
            out += bytes([128 + c, v])
            stats["repeat"] += 1
            i += c
        else:
            # literal group of 1..(n-i) bytes (<= 128)
            mx = min(128, n - i)
            c = rng.randint(1, mx) if rng.random() < 0.7 else mx
            out += bytes([c]) + bytes(chunk[i : i + c])
            stats["literal"] += 1
            i += c
    return out


def build_vef(spec):
    rng = _rng(spec)
    typ = spec.get("type", 0)
    w, h, colors, rec = VEF_TYPES[typ]
    pal = _palette(spec, rng)
    squashed = spec.get("squashed", False)
    n = rec * 400
    row_bytes = n // 200
    body = gen_body(spec.get("pattern", "random"), n, row_bytes, rng)
    stats = {"repeat": 0, "literal": 0, "split_run": 0, "full_record_run": 0}
    if squashed:
        out = bytearray([128, typ]) + bytes(pal)
        for k in range(400):
            recb = vef_squash_record(body[k * rec : (k + 1) * rec], rng, spec.get("policy", "mixed"), stats)
            assert len(recb) <= 255
            out.append(len(recb))
            out += recb
    else:
        flag = spec.get("flag_byte", 0)
        out = bytearray([flag, typ]) + bytes(pal) + bytes(body)
    # expected pixels
    px = bytearray()
    if colors == 16:
        for b in body:
            px.append(pal[b >> 4])
            px.append(pal[b & 15])
    else:
        for b in body:
            px.append(pal[b >> 6])
            px.append(pal[(b >> 4) & 3])
            px.append(pal[(b >> 2) & 3])
            px.append(pal[b & 3])
    samples = bytearray()
    out_h = h * 2 if w == 640 else h
    lut = [bytes(coco3_rgb(c)) if c < 64 else None for c in range(256)]
    for y in range(out_h):
        sy = y // 2 if w == 640 else y
        for x in range(w):
            samples += lut[px[sy * w + x]]
    return Built(bytes(out) + bytes(spec.get("trailing", b"")), [], "png", w, out_h, bytes(samples), {"enc": stats, "distinct": len(set(body))})


BUILDERS = {"hrs": build_hrs, "pix": build_pix, "max": build_max, "mge": build_mge, "rat": build_rat, "cm3": build_cm3, "vef": build_vef}
DECODER_MODULE = {"hrs": "hrstoppm", "pix": "pixtopgm", "max": "maxtoppm", "mge": "mgetoppm", "rat": "rattoppm", "cm3": "cm3toppm", "vef": "veftopng"}
EXT = {"hrs": ".ppm", "pix": ".pgm", "max": ".ppm", "mge": ".ppm", "rat": ".ppm", "cm3": ".ppm", "vef": ".png"}


def build(spec):
    return BUILDERS[spec["fmt"]](spec)
