"""C16 - decoders reproduce every pixel and palette entry of an uncompressed image.

Round trip through an independent encoder: a generated image (palette,
packed pixels, header variant) is written in the format's uncompressed
layout by the reference encoder of vf.img.model, decoded by the real
decoder, read back with vf.img.readers and compared sample by sample."""
from hypothesis import strategies as st

from vf import core, tool
from vf.core import Stats, Violation
from vf.gen import images as gi
from vf.img import check as ic
from vf.img import model

ID = "C16"
RULE = (
    "specs drawn by Hypothesis (format, header variant, palette over all 64 codes, content pattern incl. structured "
    "extremes, PRNG seed for the bulk bytes); formats HRS(-w/-r/-s), PIX(even sides), MAX/ART in all nine pixel modes, "
    "MGE raw RGB/composite (title NUL at any position), CM3 all-raw 1/2 pages with/without pattern block, VEF raw types 0/1/3; "
    "plus palette sweeps (one slot over all 64 codes). Non-trivial: packed body holds >= 8 distinct byte values "
    "(both nibbles / all bit pairs vary) or the case is a sweep case; distinct by sha1 of the spec"
)
ASSUMPTIONS = [
    "format layouts as stated in DESIGN.md appendix E; MGE composite table and MAX mode tables are transcribed from the decoder (documented behaviour)",
    "bulk pixel bytes come from random.Random(seed) with the seed drawn by Hypothesis",
]

FAST = ["hrs", "pix", "max"]
SLOW = ["mge", "cm3", "vef"]


def strategy_for(fmt):
    return {
        "hrs": gi.hrs_spec(options=True, even_width=True),
        "pix": gi.pix_spec(),
        "max": gi.max_spec(options=True),
        "mge": gi.mge_spec(compressed=False),
        "cm3": gi.cm3_spec(coded=False),
        "vef": gi.vef_spec(squashed=False),
    }[fmt]


def check_case(case):
    spec = case["spec"]
    ic.decode_exact(spec, case)
    return None


def campaign(seed, n, fmts, switches=frozenset()):
    stats = Stats()

    def body(spec):
        case = {"spec": spec}
        built = model.build(spec)
        nt = built.info.get("distinct", 0) >= 8
        classes = ["fmt_" + spec["fmt"], "pattern_" + spec.get("pattern", "?")]
        if spec["fmt"] == "max":
            classes.append("max_mode_" + spec.get("mode", "bw"))
            if spec.get("newsroom"):
                classes.append("max_newsroom")
        if spec["fmt"] == "mge":
            classes.append("mge_composite" if spec.get("composite") else "mge_rgb")
        if spec["fmt"] == "cm3":
            classes.append("cm3_pages_%d" % (2 if spec.get("two_pages") else 1))
            classes.append("cm3_no_patterns" if spec.get("no_patterns") else "cm3_patterns")
        if spec["fmt"] == "vef":
            classes.append("vef_type_%d" % spec.get("type", 0))
        stats.case(key=spec, nontrivial=nt, classes=classes, sample={k: v for k, v in spec.items() if k != "title"})
        check_case(case)

    strat = st.one_of([strategy_for(f) for f in fmts])
    core.run_hypothesis(body, strat, seed=seed, max_examples=n, stats=stats)
    return stats


def sweep(fmt, slots, codes, switches=frozenset()):
    """Palette sweep: slot s takes every code c; all other slots hold a fixed
    distinct background so a wrong slot is visible."""
    stats = Stats()
    for s_ in slots:
        for c in codes:
            pal = [(7 * i + 3) % 64 for i in range(16)]
            pal[s_] = c
            if fmt == "hrs":
                spec = {"fmt": "hrs", "seed": s_ * 64 + c, "palette": pal, "pattern": "ramp", "w": 64, "h": 8}
            elif fmt == "max":
                continue
            else:
                spec = {"fmt": fmt, "seed": s_ * 64 + c, "palette": pal, "pattern": "ramp"}
                if fmt == "mge":
                    spec["composite"] = bool((s_ + c) & 1)
            case = {"spec": spec}
            stats.case(key=spec, nontrivial=True, classes=["sweep_" + fmt], sample=spec)
            try:
                check_case(case)
            except Violation as v:
                stats.fail(v.detail, v.case)
                return stats
    return stats


def variants(seed, switches=frozenset()):
    """Every layout variant the property names, once per run, each with a body that holds all 256 byte values (every nibble and bit pair
    in every position): MAX and ART in each of the nine pixel modes, MGE with RGB and composite palette, CM3 with one / two pages x
    with / without pattern block, VEF types 0, 1 and 3, HRS, PIX."""
    stats = Stats()
    specs = []
    for m in model.MAX_MODES:
        specs.append({"fmt": "max", "mode": m, "pattern": "ramp", "seed": seed, "rows": 8})  # 256 columns: 256 bytes
        specs.append({"fmt": "max", "mode": m, "pattern": "ramp", "seed": seed + 1, "newsroom": True, "cols": 64, "rows": 32})
        specs.append({"fmt": "max", "mode": m, "pattern": "ramp", "seed": seed + 2, "cols": 128, "rows": 16})
    # MAX length fields at and beyond 0x8000 (the height is derived from the 16-bit length)
    specs.append({"fmt": "max", "mode": "bw", "pattern": "runs", "seed": seed, "cols": 256, "rows": 1024})
    specs.append({"fmt": "max", "mode": "br2", "pattern": "runs", "seed": seed, "cols": 512, "rows": 1000})
    for t in (0, 1, 3):
        for band in (1, 7, 8, 9, 16):
            specs.append({"fmt": "vef", "type": t, "squashed": False, "pattern": "blank_top_%d" % band, "seed": seed + t, "palette": [(3 * i + seed) % 64 for i in range(16)]})
        specs.append({"fmt": "vef", "type": t, "squashed": False, "pattern": "blank_bottom_8", "seed": seed + t + 5, "palette": [(3 * i + seed) % 64 for i in range(16)]})
    for f_ in ("mge", "cm3", "hrs"):
        specs.append(dict({"fmt": f_, "pattern": "blank_top_8", "seed": seed, "palette": [(3 * i + seed) % 64 for i in range(16)]},
                          **({"compressed": False, "composite": False} if f_ == "mge" else {"coded": False} if f_ == "cm3" else {})))
    for comp in (False, True):
        specs.append({"fmt": "mge", "composite": comp, "compressed": False, "pattern": "ramp", "seed": seed, "palette": [(5 * i + seed) % 64 for i in range(16)]})
    for two in (False, True):
        for nop in (False, True):
            specs.append({"fmt": "cm3", "two_pages": two, "no_patterns": nop, "coded": False, "pattern": "ramp", "seed": seed, "palette": [(11 * i + seed) % 64 for i in range(16)]})
    for t in (0, 1, 3):
        specs.append({"fmt": "vef", "type": t, "squashed": False, "pattern": "ramp", "seed": seed, "palette": [(13 * i + seed) % 64 for i in range(16)]})
    specs.append({"fmt": "hrs", "pattern": "ramp", "seed": seed, "palette": [(7 * i + seed) % 64 for i in range(16)]})
    specs.append({"fmt": "pix", "pattern": "ramp", "seed": seed, "side": 32})
    for spec in specs:
        case = {"spec": spec}
        tag = spec["fmt"] + ("_" + spec["mode"] if "mode" in spec else "") + ("_newsroom" if spec.get("newsroom") else "")
        stats.case(key=spec, nontrivial=True, classes=["variant_" + tag], sample=spec)
        try:
            check_case(case)
        except Violation as v:
            stats.fail(v.detail, v.case)
            return stats
    return stats


def plan(tier, seed, switches):
    if tier == "quick":
        return [
            ("variants", [dict(seed=seed)]),
            ("campaign", [dict(seed=seed * 100 + 1, n=220, fmts=FAST)]
             + [dict(seed=seed * 100 + 2 + i, n=14, fmts=[f]) for i, f in enumerate(SLOW * 2)]),
            ("sweep", [dict(fmt="hrs", slots=list(range(16)), codes=list(range(64)))]
             + [dict(fmt=f, slots=[(seed + k) % 16], codes=list(range(k, 64, 16))) for f in SLOW for k in range(4)]),
        ]
    return [
        ("variants", [dict(seed=seed * 10 + k) for k in range(8)]),
        ("campaign", [dict(seed=seed * 1000 + k, n=2000, fmts=FAST) for k in range(3)]
         + [dict(seed=seed * 1000 + 10 + k, n=460, fmts=[SLOW[k % 3]]) for k in range(13)]),
        ("sweep", [dict(fmt="hrs", slots=list(range(16)), codes=list(range(64)))]
         + [dict(fmt=f, slots=[s_], codes=list(range(64))) for f in SLOW for s_ in range(16)]),
    ]


def evidence_extra(stats):
    return {"exhaustive_part": "every layout variant named by the property (nine MAX / ART pixel modes, MGE RGB / composite, CM3 1-2 pages x pattern block, VEF types 0 1 3, HRS, PIX) is decoded in every run with a body holding all 256 byte values; HRS palette sweep covers all 16 slots x 64 codes in every run; MGE/CM3/VEF sweeps are complete in the thorough tier"}
