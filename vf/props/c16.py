"""C16 - decoders reproduce every pixel and palette entry of an uncompressed image.

Round trip through an independent encoder: a generated image (palette,
packed pixels, header variant) is written in the format's uncompressed
layout by the reference encoder of vf.img.model, decoded by the real
decoder, read back with vf.img.readers and compared sample by sample."""
from hypothesis import strategies as st

from vf import core, tool
from vf.core import Stats, Violation
from vf.gen import images as gi
from vf.img import check as ic
from vf.img import model

ID = "C16"
RULE = (
    "specs drawn by Hypothesis (format, header variant, palette over all 64 codes, content pattern incl. structured "
    "extremes, PRNG seed for the bulk bytes); formats HRS(-w/-r/-s), PIX(even sides), MAX/ART in all nine pixel modes, "
    "MGE raw RGB/composite (title NUL at any position), CM3 all-raw 1/2 pages with/without pattern block, VEF raw types 0/1/3; "
    "plus palette sweeps (one slot over all 64 codes). Non-trivial: packed body holds >= 8 distinct byte values "
    "(both nibbles / all bit pairs vary) or the case is a sweep case; distinct by sha1 of the spec"
)
ASSUMPTIONS = [
    "format layouts as stated in DESIGN.md appendix E; MGE composite table and MAX mode tables are transcribed from the decoder (documented behaviour)",
    "bulk pixel bytes come from random.Random(seed) with the seed drawn by Hypothesis",
]

FAST = ["hrs", "pix", "max"]
SLOW = ["mge", "cm3", "vef"]


def strategy_for(fmt):
    return {
        "hrs": gi.hrs_spec(options=True, even_width=True),
        "pix": gi.pix_spec(),
        "max": gi.max_spec(options=True),
        "mge": gi.mge_spec(compressed=False),
        "cm3": gi.cm3_spec(coded=False),
        "vef": gi.vef_spec(squashed=False),
    }[fmt]


def check_case(case):
    spec = case["spec"]
    ic.decode_exact(spec, case)
    return None


def campaign(seed, n, fmts, switches=frozenset()):
    stats = Stats()

    def body(spec):
        case = {"spec": spec}
        built = model.build(spec)
        nt = built.info.get("distinct", 0) >= 8
        classes = ["fmt_" + spec["fmt"], "pattern_" + spec.get("pattern", "?")]
        if spec["fmt"] == "max":
            classes.append("max_mode_" + spec.get("mode", "bw"))
            if spec.get("newsroom"):
                classes.append("max_newsroom")
        if spec["fmt"] == "mge":
            classes.append("mge_composite" if spec.get("composite") else "mge_rgb")
        if spec["fmt"] == "cm3":
            classes.append("cm3_pages_%d" % (2 if spec.get("two_pages") else 1))
            classes.append("cm3_no_patterns" if spec.get("no_patterns") else "cm3_patterns")
        if spec["fmt"] == "vef":
            classes.append("vef_type_%d" % spec.get("type", 0))
        stats.case(key=spec, nontrivial=nt, classes=classes, sample={k: v for k, v in spec.items() if k != "title"})
        check_case(case)

    strat = st.one_of([strategy_for(f) for f in fmts])
    core.run_hypothesis(body, strat, seed=seed, max_examples=n, stats=stats)
    return stats


def sweep(fmt, slots, codes, switches=frozenset()):
    """Palette sweep: slot s takes every code c; all other slots hold a fixed
    distinct background so a wrong slot is visible."""
    stats = Stats()
    for s_ in slots:
        for c in codes:
            pal = [(7 * i + 3) % 64 for i in range(16)]
            pal[s_] = c
            if fmt == "hrs":
                spec = {"fmt": "hrs", "seed": s_ * 64 + c, "palette": pal, "pattern": "ramp", "w": 64, "h": 8}
            elif fmt == "max":
                continue
            else:
                spec = {"fmt": fmt, "seed": s_ * 64 + c, "palette": pal, "pattern": "ramp"}
                if fmt == "mge":
                    spec["composite"] = bool((s_ + c) & 1)
            case = {"spec": spec}
            stats.case(key=spec, nontrivial=True, classes=["sweep_" + fmt], sample=spec)
            try:
                check_case(case)
            except Violation as v:
                stats.fail(v.detail, v.case)
                return stats
    return stats


def plan(tier, seed, switches):
    if tier == "quick":
        return [
            ("campaign", [dict(seed=seed * 100 + 1, n=220, fmts=FAST)]
             + [dict(seed=seed * 100 + 2 + i, n=14, fmts=[f]) for i, f in enumerate(SLOW * 2)]),
            ("sweep", [dict(fmt="hrs", slots=list(range(16)), codes=list(range(64)))]
             + [dict(fmt=f, slots=[(seed + k) % 16], codes=list(range(k, 64, 16))) for f in SLOW for k in range(4)]),
        ]
    return [
        ("campaign", [dict(seed=seed * 1000 + k, n=2000, fmts=FAST) for k in range(3)]
         + [dict(seed=seed * 1000 + 10 + k, n=460, fmts=[SLOW[k % 3]]) for k in range(13)]),
        ("sweep", [dict(fmt="hrs", slots=list(range(16)), codes=list(range(64)))]
         + [dict(fmt=f, slots=[s_], codes=list(range(64))) for f in SLOW for s_ in range(16)]),
    ]


def evidence_extra(stats):
    return {"exhaustive_part": "HRS palette sweep covers all 16 slots x 64 codes in every run; MGE/CM3/VEF sweeps are complete in the thorough tier"}
