"""C17 - compression is transparent: any valid encoding decodes to the original image.

Generated images are encoded by nondeterministic reference encoders (every
decision - run length, run splitting, literal vs repeat, escape use, CM3
copy-left / copy-up / literal, padding of the literal-bit block - is drawn),
decoded by the real decoder, and compared sample by sample with the expected
image and with the decoding of the uncompressed twin where the format has one."""
from hypothesis import strategies as st

from vf import core
from vf.core import Stats, Violation
from vf.gen import images as gi
from vf.img import check as ic
from vf.img import model, run

ID = "C17"
RULE = (
    "specs drawn by Hypothesis (format, palette, content pattern, encoder policy, PRNG seed for per-decision choices): "
    "MGE (count,value) pairs with any split of a run into 1..255; RAT with any escape byte, literals vs (escape,n,value) "
    "groups, mandatory escaping of bytes equal to the escape; CM3 per line raw or coded with any valid choice among "
    "copy-left (incl. column 0 = previous byte in raster order) / copy-up (incl. across the page boundary) / literal and "
    "padded literal-bit blocks; VEF squashed with 400 records of repeat groups 1..127 and literal groups in any segmentation. "
    "Non-trivial: the encoding contains >= 1 split run and >= 1 literal and >= 1 group, or a boundary-crossing / maximal run "
    "(per-format counters reported in classes); distinct by sha1 of the spec"
)
RULE += ' The CM3 reference encoder draws policies (always copy from the left / from above, literal-heavy), so that solid lines get an empty second mask.'
ASSUMPTIONS = [
    "format grammars as stated in DESIGN.md appendix E",
    "per-decision encoder choices come from random.Random(seed), the seed and the policy are drawn by Hypothesis",
]

FMTS = ["mge", "rat", "cm3", "vef"]


def strategy_for(fmt, switches):
    if fmt == "mge":
        return gi.mge_spec(compressed=True)
    if fmt == "rat":
        return gi.rat_spec(low_nibble_limit=8 if "rat_low_nibble_le7" in switches else None)
    if fmt == "cm3":
        return gi.cm3_spec(coded=True)
    return gi.vef_spec(squashed=True)


def twin(spec):
    t = dict(spec)
    if spec["fmt"] == "mge":
        t["compressed"] = False
    elif spec["fmt"] == "cm3":
        t["coded"] = False
    elif spec["fmt"] == "vef":
        t["squashed"] = False
    else:
        return None
    return t


def nontrivial(spec, built):
    e = built.info.get("enc", {})
    f = spec["fmt"]
    if f == "mge":
        return (e.get("split_run", 0) and e.get("one", 0)) or e.get("max_run", 0)
    if f == "rat":
        return (e.get("split_run", 0) and e.get("literal", 0) and e.get("group", 0)) or e.get("max_run", 0) or e.get("escaped_literal", 0)
    if f == "cm3":
        return e.get("coded_lines", 0) and e.get("copy_up", 0) and e.get("literal", 0) and (e.get("copy_left", 0) or e.get("copy_up_across_page", 0))
    return (e.get("repeat", 0) and e.get("literal", 0)) or e.get("full_record_run", 0)


def check_case(case):
    spec = case["spec"]
    built, res, parsed = ic.decode_exact(spec, case)
    t = twin(spec)
    if t is not None and case.get("twin", True):
        tb = model.build(t)
        r2 = run.run_decoder(t["fmt"], tb.data, tb.argv)
        if r2.status != "ok" or r2.out is None:
            raise Violation("uncompressed twin not decoded: %s %s" % (r2.status, r2.why), case)
        p2 = run.read_output(t["fmt"], r2.out)
        if p2.get("samples") != parsed["samples"]:
            raise Violation("compressed and uncompressed forms of one image decode differently", case)
    return None


def campaign(seed, n, fmts, switches=frozenset()):
    stats = Stats()

    def body(spec):
        case = {"spec": spec}
        built = model.build(spec)
        e = built.info.get("enc", {})
        classes = ["fmt_" + spec["fmt"], "pattern_" + spec.get("pattern", "?")]
        for k, v in e.items():
            if v:
                classes.append("%s_%s" % (spec["fmt"], k))
        if spec["fmt"] == "rat" and spec.get("low_nibble_limit"):
            stats.excluded["rat_low_nibble_le7"] += 1
        stats.case(key=spec, nontrivial=bool(nontrivial(spec, built)), classes=classes,
                   sample={k: v for k, v in spec.items() if k != "title"})
        check_case(case)

    strat = st.one_of([strategy_for(f, switches) for f in fmts])
    core.run_hypothesis(body, strat, seed=seed, max_examples=n, stats=stats)
    return stats


def plan(tier, seed, switches):
    if tier == "quick":
        return [("campaign", [dict(seed=seed * 100 + i, n=20, fmts=[f], switches=switches) for i, f in enumerate(FMTS * 2)])]
    return [("campaign", [dict(seed=seed * 1000 + i, n=750, fmts=[FMTS[i % 4]], switches=switches) for i in range(16)])]
