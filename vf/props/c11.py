"""C11 - each option changes only the aspect of the output it documents.

Metamorphic: for every generated program and every combination of the other
options, toggling one option must leave the output unchanged under that
option's projection (labels stripped / prologue initialisers removed /
start-up flag masked / bundle prefix removed / string sizes removed).  The
command line must map each flag to exactly that option, name the procedure
after the input file and write OS-9 line ends."""
import itertools
import os

from hypothesis import strategies as st

from vf import core, tool
from vf.b09 import parse
from vf.cb import render
from vf.core import Stats, Violation
from vf.gen import full

ID = "C11"
RULE = (
    "full-grammar programs built by Hypothesis x all 32 combinations of filter_unused_linenum, initialize_vars, default_width32, "
    "output_dependencies(+procname), default_str_storage in {32, n}; for the command line all 32 subsets of -l -z -D -w -s plus -c files and "
    "input file names over [A-Za-z0-9_]+. Non-trivial: the toggled option actually changes the output; distinct by sha1 of (program, toggled option, other options)"
)
RULE += ' Toggles are also evaluated inside varied surroundings (no standard prefix, no suffix, a per-name size map); string sizes include 1, 2, 256, 1000, 32766; the filter is checked in both directions (it never adds a label).'
ASSUMPTIONS = [
    "prologue initialisers are recognised structurally: assignment of a zero / empty literal to a scalar, or a FOR nest doing so for every element of one array",
]

TOGGLES = ["filter_unused_linenum", "initialize_vars", "default_width32", "output_dependencies", "default_str_storage"]


def base_opts(bits, size):
    f, i, w, d, s = bits
    o = {"filter_unused_linenum": bool(f), "initialize_vars": bool(i), "default_width32": bool(w)}
    if d:
        o["output_dependencies"] = True
        o["procname"] = "prog"
    o["default_str_storage"] = size if s else 32
    return o


def strip_label(raw):
    i = 0
    while i < len(raw) and raw[i].isdigit():
        i += 1
    if i and i < len(raw) and raw[i] == " ":
        return raw[i + 1:]
    return raw


def is_zero_lit(e):
    if e[0] == "num":
        return float(e[1]) == 0.0
    if e[0] == "str":
        return e[1] == ""
    return False


def is_initialiser_line(raw):
    """A physical line consisting only of prologue initialisers."""
    try:
        lines = parse.parse_program(raw)
    except parse.B09SyntaxError:
        return False
    stmts = [s for ln in lines for s in ln.stmts if s.kind != "empty"]
    if lines and lines[0].label is not None:
        return False
    if not stmts:
        return True
    if all(s.kind == "assign" and s.target[0] == "var" and is_zero_lit(s.exp) for s in stmts):
        return True
    # FOR v1 .. FOR vk \ arr(v1..vk) := 0 \ NEXT vk .. NEXT v1
    k = 0
    while k < len(stmts) and stmts[k].kind == "for":
        k += 1
    if k and len(stmts) == 2 * k + 1:
        mid = stmts[k]
        if mid.kind == "assign" and mid.target[0] == "idx" and is_zero_lit(mid.exp) and all(s.kind == "next" for s in stmts[k + 1:]):
            loopvars = [s.var.upper() for s in stmts[:k]]
            subs = [a[1].upper() for a in mid.target[2] if a[0] == "var"]
            return subs == loopvars and [s.var.upper() for s in stmts[k + 1:]] == loopvars[::-1]
    return False


def mask_start_flag(out):
    res = []
    for raw in out.split("\n"):
        low = raw.lower()
        if "_ecb_start" in low:
            try:
                lines = parse.parse_program(raw)
                for s in lines[0].stmts:
                    if s.kind == "run" and s.name.lower() == "_ecb_start" and len(s.args) == 2:
                        raw = "RUN _ecb_start(<display>, <flag>)"
            except parse.B09SyntaxError:
                pass
        res.append(raw)
    return "\n".join(res)


def strip_sizes(out):
    """Projection for the string-size option: declared sizes removed.  The tool groups the names of a DIM by size, so changing a size can move
    a name to another DIM line of the same block or merge two lines; consecutive DIM / PARAM lines are therefore compared as one block of
    (name, dims, type) entries, and string scalars - whose declaration line exists only for the sake of its size - are left out."""
    res = []
    block = None  # [label, kind, entries]

    def flush():
        nonlocal block
        if block is not None and (block[2] or block[0] is not None):
            res.append("%s%s %r" % ("" if block[0] is None else "%d " % block[0], block[1], sorted(block[2])))
        block = None

    for raw in out.split("\n"):
        try:
            lines = parse.parse_program(raw)
        except parse.B09SyntaxError:
            flush()
            res.append(raw)
            continue
        stmts = [s for s in lines[0].stmts]
        if len(stmts) == 1 and stmts[0].kind in ("dim", "param"):
            kind = stmts[0].kind.upper()
            entries = []
            for g in stmts[0].groups:
                for n, d in g["names"]:
                    typ = (g["type"] or "").upper() or ("STRING" if n.endswith("$") else "REAL")
                    if kind == "DIM" and typ == "STRING" and not d:
                        continue  # a string scalar: declared only to give it a size
                    entries.append((n.upper(), tuple(d), typ))
            if block is not None and block[1] == kind and lines[0].label is None:
                block[2] += entries
            else:
                flush()
                block = [lines[0].label, kind, entries]
            continue
        flush()
        res.append(raw)
    flush()
    return "\n".join(res)


def user_part(out, procname):
    lines = out.split("\n")
    idx = None
    for i, raw in enumerate(lines):
        if raw.strip().lower() == "procedure " + procname.lower():
            idx = i
    if idx is None:
        return None
    return "\n".join(lines[idx + 1:])


def check_toggle(src, opts, toggle, size, case):
    a = dict(opts)
    b = dict(opts)
    if toggle == "default_str_storage":
        a["default_str_storage"], b["default_str_storage"] = 32, size
    elif toggle == "output_dependencies":
        a.pop("output_dependencies", None)
        a.pop("procname", None)
        b["output_dependencies"] = True
        b["procname"] = "prog"
    else:
        a[toggle], b[toggle] = False, True
    sa, oa = tool.try_convert(src, **a)
    sb, ob = tool.try_convert(src, **b)
    if sa != "ok" or sb != "ok":
        if (sa == "ok") != (sb == "ok") and "internal" not in (sa, sb):
            raise Violation("option %s decides whether the program is accepted (%s / %s)" % (toggle, oa if sa != "ok" else "ok", ob if sb != "ok" else "ok"), case)
        return None
    changed = oa != ob
    if toggle == "filter_unused_linenum":
        if "\n".join(map(strip_label, oa.split("\n"))) != "\n".join(map(strip_label, ob.split("\n"))):
            raise Violation("filter_unused_linenum changes more than labels", case)
        # the filter only *removes* labels: a line that is labelled with it is labelled without it
        for ra, rb in zip(oa.split("\n"), ob.split("\n")):
            if rb != strip_label(rb) and ra == strip_label(ra):
                raise Violation("with filter_unused_linenum line %r carries a label that it does not carry without the filter" % rb[:60], case)
        # only *unused* labels may go: every jump target of the filtered output still labels a line
        try:
            lines = parse.parse_program(ob)
        except parse.B09SyntaxError:
            lines = []
        labels = {ln.label for ln in lines if ln.label is not None}
        for ln in lines:
            for st_ in ln.stmts:
                tg = [st_.target] if st_.kind in ("goto", "gosub", "ifgoto") else (list(st_.targets) if st_.kind == "ongo" else [])
                for t in tg:
                    if t not in labels and t != 32700:
                        raise Violation("filter_unused_linenum removed the label of line %d, which the output still jumps to" % t, case)
    elif toggle == "initialize_vars":
        la, lb = oa.split("\n"), ob.split("\n")
        i = 0
        for raw in lb:
            if i < len(la) and la[i] == raw:
                i += 1
            elif not is_initialiser_line(raw):
                raise Violation("with initialize_vars the output gains a line that is not a prologue initialiser: %r" % raw[:100], case)
        if i != len(la):
            raise Violation("the output without initialize_vars is not a line subsequence of the output with it (line %r is missing)" % la[i][:100], case)
    elif toggle == "default_width32":
        if mask_start_flag(oa) != mask_start_flag(ob):
            raise Violation("default_width32 changes more than the start-up call's flag", case)
        if changed is False and "_ecb_start" in oa:
            raise Violation("default_width32 does not change the start-up call", case)
    elif toggle == "output_dependencies":
        up = user_part(ob, "prog")
        if up is None:
            raise Violation("no 'procedure prog' header in the output with dependencies", case)
        # the bank strips blank space at the very ends of a procedure's text; that is not an aspect of the output
        if up.strip() != oa.strip():
            raise Violation("the text after the program's procedure header differs from the output without dependencies", case)
    elif toggle == "default_str_storage":
        if strip_sizes(oa) != strip_sizes(ob):
            raise Violation("default_str_storage changes more than declared string sizes", case)
    return changed


def check_case(case):
    if case.get("kind") == "cli":
        return check_cli(case)
    src = case["source"] if "source" in case else render.render(case["prog"], paren_unary=case.get("paren_unary", False))
    case["_source"] = src
    size = case.get("size", 80)
    changed_any = {}
    combos = case.get("combos") or list(itertools.product([0, 1], repeat=5))
    ctx = dict(case.get("context") or {})
    for bits in combos:
        opts = base_opts(bits, size)
        opts.update(ctx)  # parameters that are no documented option of the property but form the surroundings in which an option is toggled
        for ti, toggle in enumerate(TOGGLES):
            if bits[ti]:
                continue  # each unordered pair once: toggle from the 'off' side
            sub = {"source": src, "size": size, "combos": [list(bits)], "toggle": toggle, "context": ctx}
            ch = check_toggle(src, opts, toggle, size, sub)
            if ch:
                changed_any[toggle] = changed_any.get(toggle, 0) + 1
    case["_changed"] = changed_any
    return None


def check_cli(case):
    from coco import decb_to_b09

    src = case["source"]
    flags = case["flags"]
    stem = case["stem"]
    cfg = case.get("config")
    with tool.scratch_dir() as d:
        inp = os.path.join(d, stem + ".bas")
        outp = os.path.join(d, "out.b09")
        with open(inp, "w") as f:
            f.write(src)
        argv = []
        kw = {"initialize_vars": True, "output_dependencies": True, "default_width32": True, "filter_unused_linenum": False,
              "default_str_storage": 32, "procname": stem}
        if "l" in flags:
            argv.append("-l")
            kw["filter_unused_linenum"] = True
        if "z" in flags:
            argv.append("-z")
            kw["initialize_vars"] = False
        if "D" in flags:
            argv.append("-D")
            kw["output_dependencies"] = False
        if "w" in flags:
            argv.append("-w")
            kw["default_width32"] = False
        if "s" in flags:
            argv += ["-s", str(case.get("size", 64))]
            kw["default_str_storage"] = case.get("size", 64)
        if cfg is not None:
            cp = os.path.join(d, "conf.yaml")
            with open(cp, "w") as f:
                f.write("string_configs:\n  strname_to_size:\n" + "".join("    %s: %d\n" % (k, v) for k, v in cfg.items()) if cfg else "string_configs:\n  strname_to_size: {}\n")
            argv += ["-c", cp]
            kw["string_configs"] = cfg
        status, expected = tool.try_convert(src, **kw)
        try:
            with tool.quiet():
                decb_to_b09.start([inp, outp] + argv)
            cli_status = "ok"
        except SystemExit as e:
            cli_status = "exit"
        except Exception as e:  # noqa
            cli_status = "raised " + type(e).__name__
        case["_status"] = status
        if status != "ok":
            if cli_status == "ok":
                raise Violation("convert() refuses the program but the command line converted it", case)
            return None
        if cli_status != "ok":
            raise Violation("command line failed (%s) although convert() with the documented option mapping succeeds" % cli_status, case)
        with open(outp, "rb") as f:
            got = f.read()
    want = expected.replace("\n", "\r").encode("utf-8")
    if got != want:
        if b"\n" in got:
            raise Violation("command-line output contains LF: OS-9 line ends (CR) are required", case)
        raise Violation("command-line output differs from convert() with the documented mapping of flags %r (procedure name / option wiring)" % sorted(flags), case)
    if "D" not in flags and ("procedure " + stem) not in expected:
        raise Violation("the procedure is not named after the input file stem %r" % stem, case)
    return None


@st.composite
def cases(draw, switches, all_combos=False):
    c = draw(full.full_programs(switches, max_lines=5, operand_depth=1))
    c["size"] = draw(st.sampled_from([33, 80, 255, 1, 2, 256, 1000, 32766]))
    c["paren_unary"] = "paren_unary" in switches
    if not all_combos:
        c["combos"] = draw(st.lists(st.tuples(*[st.integers(0, 1)] * 5).map(list), min_size=4, max_size=4, unique_by=tuple))
    # surroundings: the rarely used parameters of convert() and a per-name size map
    ctx = {}
    if draw(st.integers(0, 3)) == 0:
        ctx["add_standard_prefix"] = False
    if draw(st.integers(0, 3)) == 0:
        ctx["add_suffix"] = False
    if draw(st.integers(0, 2)) == 0:
        ctx["string_configs"] = draw(st.dictionaries(st.sampled_from(["A$", "B$", "S$", "NM$", "DA$", "DB$()", "DC$()", "P$()", "G$()"]), st.sampled_from([1, 10, 33, 200]), min_size=1, max_size=3))
    if ctx:
        c["context"] = ctx
    return c


@st.composite
def cli_cases(draw, switches):
    c = draw(full.full_programs(switches, max_lines=4, operand_depth=1))
    src = render.render(c["prog"], paren_unary="paren_unary" in switches)
    flags = sorted(draw(st.sets(st.sampled_from(["l", "z", "D", "w", "s"]))))
    stem = draw(st.text(alphabet="ABCxyz019_", min_size=1, max_size=8))
    if "procname_not_library_name" in switches:
        stem = "p" + stem
    cfg = draw(st.one_of(st.none(), st.dictionaries(st.sampled_from(["A$", "ZA$", "ZB$()", "P$()", "DA$()", "ZC$"]), st.sampled_from([1, 10, 64, 200]), max_size=3)))
    if cfg:
        # make the size map matter: DIM the configured ZA$ / ZB$() / ZC$ at the start of the program
        import re as _re
        src = _re.sub(r"^(\d+ ?)", r"\1DIM ZA$,ZB$(3),ZC$:", src, count=1)
    return {"kind": "cli", "source": src, "flags": flags, "stem": stem, "config": cfg, "size": draw(st.sampled_from([32, 33, 100, 1, 2, 255, 256, 300, 4096, 32766])), "_meta": c["_meta"]}


def campaign(seed, n, switches=frozenset(), all_combos=False):
    stats = Stats()

    def body(case):
        meta = case.pop("_meta")
        case = dict(case)
        check_case(case)
        ch = case.get("_changed", {})
        for k, v in ch.items():
            stats.classes["toggle_changes_output_" + k] += v
        for k, v in meta["excluded"].items():
            stats.excluded[k] += v
        stats.case(key=[case["prog"], case["size"]], nontrivial=len(ch) >= 1, classes=["api"], sample={"source": case["_source"], "size": case["size"], "toggles_with_effect": sorted(ch)})
        stats.classes["option_settings_per_program"] = 32 if all_combos else 4

    core.run_hypothesis(body, cases(switches, all_combos), seed=seed, max_examples=n, stats=stats)
    return stats


def campaign_cli(seed, n, switches=frozenset()):
    stats = Stats()

    def body(case):
        case.pop("_meta")
        case = dict(case)
        check_case(case)
        stats.case(key=case, nontrivial=case.get("_status") == "ok" and (len(case["flags"]) > 0 or case["config"] is not None),
                   classes=["cli", "cli_flags_%d" % len(case["flags"])] + (["cli_config_file"] if case["config"] is not None else []),
                   sample={"flags": case["flags"], "stem": case["stem"], "config": case["config"], "source": case["source"][:200]})

    core.run_hypothesis(body, cli_cases(switches), seed=seed, max_examples=n, stats=stats)
    return stats


def plan(tier, seed, switches):
    if tier == "quick":
        return [("campaign", [dict(seed=seed * 100 + k, n=60, switches=switches) for k in range(6)]),
                ("campaign_cli", [dict(seed=seed * 100 + 50 + k, n=120, switches=switches) for k in range(2)])]
    return [("campaign", [dict(seed=seed * 1000 + k, n=350, switches=switches, all_combos=True) for k in range(12)]),
            ("campaign_cli", [dict(seed=seed * 1000 + 50 + k, n=2500, switches=switches) for k in range(4)])]
