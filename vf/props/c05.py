"""C05 - functions turned into procedure calls are evaluated once, first, and in order.

Statements carrying nests of convertible functions (INT VAL STR$ HEX$ INSTR
STRING$ INKEY$ BUTTON JOYSTK POINT, and numbers printed through the
formatter) are placed in a two-iteration loop.
(a) static: in every statement group of the emitted text (one physical line,
    backslash-separated) a temporary that is read was assigned earlier in the
    same group;
(b) dynamic: the sequence of (function, argument values) the Color BASIC
    reference evaluates - left to right, innermost first - equals the sequence
    of RUN events of the corresponding procedures in the BASIC09 run, and all
    printed values agree (a result overwritten before use would show)."""
import re
from fractions import Fraction

from hypothesis import strategies as st

from vf import core, diff, sem, tool
from vf.b09 import interp as b09i
from vf.b09 import parse
from vf.cb import render
from vf.core import Stats, Violation
from vf.diff import Trivial
from vf.gen import cbgen, full
from vf.props import c10

ID = "C05"
RULE = (
    "programs '10 <initial values> / 20 FOR Q9=1 TO 2 / 30 <statement> / 40 NEXT / 50.. <PRINT of every variable>' built by Hypothesis; the statement is one of: "
    "assignment to a scalar / array element / string, plain IF condition and body, IF..ELSE, inner FOR bounds, PRINT and PRINT@ items, subscripts on "
    "either side, ON selector with GOSUB targets, device statement operands (HLINE, HCIRCLE, SOUND, LOCATE, HPRINT), WIDTH, READ / INPUT subscripts; its "
    "expression slots hold nests (depth <= 3) of the ten convertible functions inside each other, inside built-ins and operators; device functions "
    "return successive values of a script so the order is observable. Non-trivial: >= 2 convertible calls in the statement or one nested in any "
    "call, and the CB run stayed in the domain; distinct by sha1 of the AST"
)
RULE += ' Also: every slot is placed alone, inside THEN / ELSE branches taken on one of the two passes, and next to a second statement with temporaries of its own; slots for a whole-right-hand-side call with and without LET, PRINT operands starting with a unary operator, 10-14 calls in one statement, READ subscripts in programs with an empty DATA item. Static enumeration: every statement template of the grammar (C10 slot table + operand-free statements) with INT(A) / HEX$(A) operands in nine block contexts - no temporary read before its group assigns it, exactly one RUN per converted function.'
ASSUMPTIONS = [
    "Color BASIC evaluates operands left to right, arguments before the call, the subscripts of an assignment target before its right-hand side",
    "a temporary is an identifier of the output that is neither the emitted identifier of a source variable (learnt by probing the tool) nor declared "
    "with a non-string type in the prologue",
]

PROC_OF = {"INT": "ecb_int", "VAL": "ecb_val", "STR$": "ecb_str", "HEX$": "ecb_hex", "INSTR": "ecb_instr", "STRING$": "ecb_string",
           "INKEY$": "inkey", "BUTTON": "ecb_button", "JOYSTK": "ecb_joystk", "POINT": "ecb_point"}
N_IN = {"ecb_int": 1, "ecb_val": 1, "ecb_str": 1, "ecb_hex": 1, "ecb_instr": 3, "ecb_string": 2, "inkey": 0, "ecb_button": 1, "ecb_joystk": 1, "ecb_point": 2}


class CG:
    """Expressions dense in convertible functions."""

    def __init__(self, draw, switches):
        self.draw = draw
        self.sw = switches
        self.n = 0
        self.nested = False
        self.excluded = cbgen.Counter()

    def d(self, s):
        return self.draw(s)

    def lit(self):
        v = self.d(st.sampled_from([0, 1, 2, 3, 5, 7, 2.5, 7.75, 10]))
        return cbgen.lit_expr(v) if isinstance(v, int) else ["num", repr(v), v]

    def var(self):
        return ["var", self.d(st.sampled_from(["A", "B", "C", "I", "J", "X"]))]

    def num(self, depth, inside=False):
        r = self.d(st.integers(0, 13))
        if depth <= 0 or r < 2:
            return self.var() if self.d(st.booleans()) else self.lit()
        if inside:
            self.nested = True
        if r < 5:
            self.n += 1
            return ["fn", "INT", [self.num(depth - 1, True)]]
        if r < 6:
            self.n += 1
            return ["fn", "VAL", [self.string(depth - 1, True, plain=True)]]
        if r < 7:
            self.n += 1
            return ["fn", "BUTTON", [self.d(st.sampled_from([["num", "0", 0], ["num", "1", 1], ["var", "I"]]))]]
        if r < 8:
            if "no_joystk" in self.sw:
                self.excluded.hit("no_joystk")
                self.n += 1
                return ["fn", "BUTTON", [["num", "2", 2]]]
            self.n += 1
            return ["fn", "JOYSTK", [self.d(st.sampled_from([["num", "0", 0], ["num", "1", 1], ["num", "2", 2], ["num", "3", 3]]))]]
        if r < 9:
            self.n += 1
            return ["fn", "POINT", [self.num(depth - 1, True), self.num(depth - 1, True)]]
        if r < 10:
            self.n += 1
            return ["fn", "INSTR", [self.d(st.sampled_from([["num", "1", 1], ["num", "2", 2]])), self.string(depth - 1, True, plain=True), ["str", self.d(st.sampled_from(["A", "B", "1"]))]]]
        if r < 11:
            return ["fn", self.d(st.sampled_from(["ABS", "SGN"])), [self.num(depth - 1, True)]]
        if r < 12:
            return ["fn", "LEN", [self.string(depth - 1, True, plain=True)]]
        return ["bin", self.d(st.sampled_from(["+", "-", "*"])), self.num(depth - 1, inside), self.num(depth - 1, inside)]

    def string(self, depth, inside=False, plain=False):
        r = self.d(st.integers(0, 11))
        if depth <= 0 or r < 2:
            return ["svar", self.d(st.sampled_from(["S", "T", "U"]))] if self.d(st.booleans()) else ["str", self.d(st.sampled_from(["AB", "B1", "12", "A", ""]))]
        if inside:
            self.nested = True
        if r < 4 and not plain:
            self.n += 1
            return ["fn", "STR$", [self.num(depth - 1, True)]]
        if r < 6:
            self.n += 1
            return ["fn", "HEX$", [["fn", "ABS", [["fn", "INT", [self.num(depth - 1, True)]]]]]] if self.d(st.booleans()) else ["fn", "HEX$", [self.d(st.sampled_from([["num", "255", 255], ["var", "I"]]))]]
        if r < 7:
            self.n += 1
            return ["fn", "STRING$", [self.d(st.sampled_from([["num", "2", 2], ["num", "0", 0], ["var", "I"]])), ["scat", ["str", "*"], self.string(depth - 1, True, plain=True)]]]
        if r < 9:
            self.n += 1
            return ["fn", "INKEY$", []]
        if r < 10:
            return ["fn", "LEFT$", [["scat", ["str", "Q"], self.string(depth - 1, True, plain=True)], ["num", "2", 2]]]
        return ["scat", self.string(depth - 1, inside, plain), self.string(depth - 1, inside, plain)]

    def subscript(self, depth):
        # any integer 0..7
        return ["bin", "AND", ["par", ["fn", "INT", [["fn", "ABS", [self.num(depth, True)]]]]], ["num", "7", 7]]


SLOTS = ["many_calls", "whole_rhs", "print_unary", "assign", "assign_elem", "sassign", "if", "if_body", "ifelse", "for", "print", "printat", "subscript_rhs", "on", "device", "width", "read_sub", "input_sub"]


@st.composite
def cases(draw, switches):
    cg = CG(draw, switches)
    slot = draw(st.sampled_from(SLOTS))
    depth = draw(st.integers(1, 3))
    extra = []
    data = None
    filtered_read = False
    if slot in ("read_sub", "input_sub") and "no_convertible_in_read_input_subscripts" in switches:
        if slot == "read_sub" and draw(st.booleans()):
            # outside the open finding: with an empty DATA item in the program the READ of a numeric target is rewritten into RUN ecb_read_filter(..)
            # statements, and those are visited like any other statement
            filtered_read = True
        else:
            cg.excluded.hit("no_convertible_in_read_input_subscripts")
            slot = "assign"
    if slot == "ifelse" and "no_convertible_in_ifelse_cond" in switches:
        cg.excluded.hit("no_convertible_in_ifelse_cond")
        slot = "if"
    if slot == "many_calls":
        # ten or more converted calls in one statement: temporaries beyond tmp_9 (two-digit numbering, declaration and ordering of tmp_10 ...)
        k = draw(st.integers(10, 14))
        terms = []
        for i in range(k):
            cg.n += 1
            q = draw(st.integers(0, 3))
            if q == 0:
                terms.append(["fn", "INT", [["bin", "+", cg.var(), cbgen.lit_expr(i)]]])
            elif q == 1:
                terms.append(["fn", "VAL", [["str", str(i + 1)]]])
            elif q == 2:
                terms.append(["fn", "BUTTON", [["num", str(i % 4), i % 4]]])
            else:
                terms.append(["fn", "LEN", [["fn", "STR$", [cbgen.lit_expr(i * 7)]]]])
        e_ = terms[0]
        for i, t in enumerate(terms[1:]):
            e_ = ["bin", "+", e_, ["bin", "*", t, cbgen.lit_expr(i + 2)]]
        body = [["let", ["var", "X"], e_, False]] if draw(st.booleans()) else [["print", [["e", e_]]]]
    elif slot == "whole_rhs":
        # the whole right-hand side is one call (the tool then assigns straight into the target), with and without LET
        cg.n += 1
        let = draw(st.booleans())
        kind = draw(st.sampled_from(["num", "elem", "str"]))
        if kind == "str":
            f = draw(st.sampled_from(["STR$", "HEX$", "STRING$", "INKEY$"]))
            rhs = {"STR$": ["fn", "STR$", [cg.num(depth - 1, True)]], "HEX$": ["fn", "HEX$", [["fn", "ABS", [["fn", "INT", [cg.num(depth - 1, True)]]]]]],
                   "STRING$": ["fn", "STRING$", [["num", "2", 2], ["scat", ["str", "*"], cg.string(depth - 1, True, plain=True)]]], "INKEY$": ["fn", "INKEY$", []]}[f]
            if f == "HEX$":
                cg.n += 1
            body = [["let", ["svar", draw(st.sampled_from(["U", "S"]))], rhs, let]]
        else:
            f = draw(st.sampled_from(["INT", "VAL", "BUTTON", "POINT", "INSTR"]))
            rhs = {"INT": ["fn", "INT", [cg.num(depth - 1, True)]], "VAL": ["fn", "VAL", [cg.string(depth - 1, True, plain=True)]],
                   "BUTTON": ["fn", "BUTTON", [["num", "1", 1]]], "POINT": ["fn", "POINT", [cg.num(depth - 1, True), cg.num(0, True)]],
                   "INSTR": ["fn", "INSTR", [["num", "1", 1], cg.string(depth - 1, True, plain=True), ["str", "B"]]]}[f]
            if kind == "elem":
                cg.n += 1
                body = [["let", ["arr", "P", [cg.subscript(0)]], rhs, let]]
            else:
                body = [["let", ["var", "X"], rhs, let]]
    elif slot == "print_unary":
        # a PRINT operand that starts with a unary operator
        cg.n += 1
        inner = ["fn", "INT", [cg.num(depth - 1, True)]]
        first = ["neg", inner] if draw(st.booleans()) else ["not", ["fn", "INT", [["var", draw(st.sampled_from(["I", "J"]))]]]]
        items = [["e", first]]
        if draw(st.booleans()):
            items = [["e", ["str", "V="]], ["s", ";"]] + items
        if draw(st.booleans()):
            items += [["s", draw(st.sampled_from([";", ","]))], ["e", cg.num(1)]]
        body = [["print", items]] if draw(st.booleans()) else [["printat", ["num", "40", 40], items]]
    elif slot == "assign":
        if draw(st.integers(0, 3)) == 0:
            cg.n += 1
            body = [["let", ["var", "X"], ["fn", "INT", [["bin", "+", ["var", "X"], cg.num(depth - 1, True)]]], False]]  # X=INT(X+..): target among the arguments
        else:
            body = [["let", ["var", "X"], cg.num(depth), draw(st.booleans())]]
    elif slot == "assign_elem":
        cg.n += 1
        body = [["let", ["arr", "P", [cg.subscript(depth - 1)]], cg.num(depth), draw(st.booleans())]]
    elif slot == "sassign":
        tv = draw(st.sampled_from(["U", "U", "S"]))
        if draw(st.integers(0, 2)) == 0:
            # the target reappears inside the arguments of the function that is the whole right-hand side
            cg.n += 1
            f = draw(st.sampled_from(["STRING$", "STR$", "HEX$"]))
            if f == "STRING$":
                rhs = ["fn", "STRING$", [["num", "2", 2], ["scat", ["svar", tv], ["str", "*"]]]]
            elif f == "STR$":
                rhs = ["fn", "STR$", [["bin", "+", ["fn", "LEN", [["svar", tv]]], cg.num(depth - 1, True)]]]
            else:
                rhs = ["fn", "HEX$", [["bin", "+", ["fn", "LEN", [["svar", tv]]], ["num", "10", 10]]]]
            body = [["let", ["svar", tv], rhs, False]]
        else:
            body = [["let", ["svar", tv], cg.string(depth), draw(st.booleans())]]
    elif slot == "if":
        body = [["if", ["cmp", draw(st.sampled_from(["=", "<", ">="])), cg.num(depth), cg.num(1)], ["stmts", [["let", ["var", "X"], ["bin", "+", ["var", "X"], ["num", "1", 1]], False]]], None]]
    elif slot == "if_body":
        body = [["if", ["cmp", ">", ["var", "Q9"], ["num", "0", 0]], ["stmts", [["let", ["var", "X"], cg.num(depth), False], ["print", [["e", cg.num(1)]]]]], None]]
    elif slot == "ifelse":
        body = [["if", ["cmp", "=", cg.num(depth), cg.num(1)], ["stmts", [["let", ["var", "X"], cg.num(1), False]]], ["stmts", [["let", ["var", "X"], cg.num(1), False]]]]]
    elif slot == "for":
        body = [["for", "L", ["fn", "INT", [cg.num(depth - 1, True)]], ["bin", "+", ["fn", "INT", [cg.num(depth - 1, True)]], ["num", "20", 20]], draw(st.sampled_from([None, ["bin", "+", ["fn", "INT", [["fn", "ABS", [cg.num(0)]]]], ["num", "9", 9]]]))],
                ["let", ["var", "X"], ["bin", "+", ["var", "X"], ["var", "L"]], False], ["next", []]]
        cg.n += 2
    elif slot == "print":
        items = []
        for k in range(draw(st.integers(1, 3))):
            if k:
                items.append(["s", draw(st.sampled_from([";", ","]))])
            items.append(["e", cg.num(depth) if draw(st.booleans()) else cg.string(depth)])
        body = [["print", items]]
    elif slot == "printat":
        body = [["printat", ["fn", "INT", [cg.num(depth - 1, True)]], [["e", cg.num(depth - 1)], ["s", ";"], ["e", cg.string(1)]]]]
        cg.n += 1
    elif slot == "subscript_rhs":
        cg.n += 1
        body = [["let", ["var", "X"], ["bin", "+", ["arr", "P", [cg.subscript(depth - 1)]], cg.num(1)], False]]
    elif slot == "on":
        cg.n += 1
        body = [["on", ["bin", "AND", ["par", ["fn", "INT", [["fn", "ABS", [cg.num(depth - 1, True)]]]]], ["num", "3", 3]], "GOSUB", [900, 910, 920]]]
        extra = [[900, [["let", ["var", "X"], ["bin", "+", ["var", "X"], ["num", "100", 100]], False], ["return"]]],
                 [910, [["let", ["var", "X"], ["bin", "+", ["var", "X"], ["num", "200", 200]], False], ["return"]]],
                 [920, [["let", ["var", "X"], ["bin", "+", ["var", "X"], ["num", "300", 300]], False], ["return"]]]]
    elif slot == "device":
        kind = draw(st.sampled_from(["HLINE", "HCIRCLE", "SOUND", "SOUND", "LOCATE", "HPRINT", "HSET", "POKE", "PALETTE"]))
        e = lambda: cg.num(depth if draw(st.integers(0, 3)) else 0)
        if kind == "HLINE":
            body = [["dev", "HLINE", {"x0": e(), "y0": e(), "x1": e(), "y1": e(), "mode": "PSET", "box": None}]]
        elif kind == "HCIRCLE":
            body = [["dev", "HCIRCLE", {"x": e(), "y": e(), "r": e(), "c": None, "hw": e(), "form": "ellipse"}]]
        elif kind == "SOUND":
            body = [["sound", e(), e()]]
        elif kind == "LOCATE":
            body = [["dev", "LOCATE", {"x": e(), "y": e()}]]
        elif kind == "PALETTE":
            body = [["dev", "PALETTE", {"r": e(), "c": e()}]]
        elif kind == "POKE":
            body = [["poke", ["bin", "+", ["num", "1024", 1024], e()], e()]]
        elif kind == "HPRINT":
            body = [["dev", "HPRINT", {"x": e(), "y": e(), "t": cg.string(depth)}]]
        else:
            body = [["dev", "HSET", {"x": e(), "y": e(), "c": e()}]]
    elif slot == "width":
        body = [["dev", "WIDTH", {"a": ["bin", "+", ["bin", "*", ["fn", "INT", [cg.lit()]], ["num", "0", 0]], ["num", "40", 40]]}]]
        cg.n += 1
    elif slot == "read_sub":
        cg.n += 1
        body = [["read", [["arr", "P", [cg.subscript(depth - 1)]]]], ["restore"]]
        data = ["data", [["n", "77", 77]] + ([["e"]] if filtered_read or draw(st.booleans()) else [])]
    else:
        cg.n += 1
        body = [["input", None, [["arr", "P", [cg.subscript(depth - 1)]]], False]]
    # the statement's surroundings: alone on its line, inside a THEN or ELSE branch (taken on one of the two passes of the Q9 loop), or next to
    # another statement of the same line that needs temporaries of its own
    ctxs = ["line", "line", "then", "after_stmt"]
    if slot not in ("if", "if_body", "ifelse"):
        ctxs += ["then_else_then", "then_else_else", "before_stmt", "between_stmts"]
    ctx = draw(st.sampled_from(ctxs))

    def other():
        cg.n += 1
        return ["let", ["var", "C"], ["bin", "+", ["fn", "INT", [cg.num(0)]], cg.lit()], False]

    first_pass = ["cmp", "=", ["var", "Q9"], ["num", "1", 1]]
    if ctx == "then":
        body = [["if", ["cmp", ">", ["var", "Q9"], ["num", "0", 0]], ["stmts", body], None]]
    elif ctx == "then_else_then":
        body = [["if", first_pass, ["stmts", body], ["stmts", [other()]]]]
    elif ctx == "then_else_else":
        body = [["if", first_pass, ["stmts", [other()]], ["stmts", body]]]
    elif ctx == "after_stmt":
        body = [other()] + body
    elif ctx == "before_stmt":
        body = body + [other()]
    elif ctx == "between_stmts":
        body = [other()] + body + [other()]
    init = [["let", ["var", v], cbgen.lit_expr(x), False] for v, x in zip(["A", "B", "C", "I", "J", "X"], draw(st.permutations([2, 3, 5.5, 1, 0, 7])))]
    init += [["let", ["svar", "S"], ["str", "AB1"], False], ["let", ["svar", "T"], ["str", "12"], False], ["let", ["svar", "U"], ["str", ""], False]]
    init += [["let", ["arr", "P", [["num", str(i), i]]], ["num", str(40 + i), 40 + i], False] for i in range(8)]
    prog = [[10, init], [20, [["for", "Q9", ["num", "1", 1], ["num", "2", 2], None]]], [30, body], [40, [["next", ["Q9"]]]]]
    ep = []
    for v in ["A", "B", "C", "I", "J", "X", "L"]:
        ep += [["e", ["var", v]], ["s", ";"]]
    prog.append([50, [["print", ep[:-1]]]])
    prog.append([60, [["print", [["e", ["str", "["]], ["s", ";"], ["e", ["svar", "U"]], ["s", ";"], ["e", ["str", "]"]]]]]])
    ep = []
    for i in range(8):
        ep += [["e", ["arr", "P", [["num", str(i), i]]]], ["s", ";"]]
    prog.append([70, [["print", ep[:-1]]]])
    prog.append([80, [["end"]]])
    if data:
        prog.append([85, [data]])
    prog += extra
    return full.add_layout(draw, {"prog": prog, "paren_unary": "paren_unary" in switches,
                                  "_meta": {"slot": slot, "ctx": ctx, "n_conv": cg.n, "nested": cg.nested, "excluded": dict(cg.excluded)}}, switches, key="source_override")


def source_identifiers(prog):
    ids = set()

    def walk(x):
        if isinstance(x, list) and x:
            k = x[0]
            if k in ("var", "svar", "arr", "sarr") and len(x) >= 2 and isinstance(x[1], str):
                kind = {"var": "num", "svar": "str", "arr": "arr", "sarr": "sarr"}[k]
                ids.add(c10.ident_of(x[1][:2], kind))
            if k == "for" and isinstance(x[1], str):
                ids.add(c10.ident_of(x[1][:2], "num"))
            if k == "next":
                for v in x[1]:
                    ids.add(c10.ident_of(v[:2], "num"))
            for y in x:
                walk(y)

    walk(prog)
    return ids


def static_check(out, prog, case):
    try:
        lines = parse.parse_program(out)
    except parse.B09SyntaxError as e:
        raise Violation("emitted text is not well-formed BASIC09 (an operand or call was lost?): %s" % e, case)
    user = source_identifiers(prog)
    prologue_typed = set()
    for ln in lines:
        for s in ln.stmts:
            if s.kind == "dim":
                for g in s.groups:
                    if g["type"] and g["type"].upper() != "STRING":
                        prologue_typed |= {n.upper() for n, _ in g["names"]}

    def is_temp(name):
        n = name.upper().split(".")[0]
        return n not in user and n not in prologue_typed and n not in ("ERRNUM", "PID", "DISPLAY", "PLAY", "ERNO")  # the run-time records are no temporaries

    for ln in lines:
        assigned = set()
        for s in ln.stmts:
            reads = []
            writes = []
            if s.kind == "run":
                for i, a in enumerate(s.args):
                    if a[0] == "var" and is_temp(a[1]) and i == len(s.args) - 1:
                        writes.append(a[1].upper())
                    else:
                        for sub in parse.walk_expr(a):
                            if sub[0] in ("var", "idx"):
                                reads.append(sub[1].upper())
            elif s.kind == "read":
                for t in s.targets:
                    if t[0] == "var":
                        writes.append(t[1].upper())
                    else:
                        for a in t[2]:
                            for sub in parse.walk_expr(a):
                                if sub[0] in ("var", "idx"):
                                    reads.append(sub[1].upper())
            elif s.kind == "for":
                writes.append(s.var.upper())
                for e in (s.start, s.limit, s.step):
                    if e is not None:
                        for sub in parse.walk_expr(e):
                            if sub[0] in ("var", "idx"):
                                reads.append(sub[1].upper())
            elif s.kind == "assign":
                if s.target[0] == "var":
                    writes.append(s.target[1].upper())
                else:
                    for a in s.target[2]:
                        for sub in parse.walk_expr(a):
                            if sub[0] in ("var", "idx"):
                                reads.append(sub[1].upper())
                for sub in parse.walk_expr(s.exp):
                    if sub[0] in ("var", "idx"):
                        reads.append(sub[1].upper())
            elif s.kind == "dim":
                continue
            else:
                for e in parse.stmt_exprs(s):
                    for sub in parse.walk_expr(e):
                        if sub[0] in ("var", "idx"):
                            reads.append(sub[1].upper())
            for r in reads:
                if is_temp(r) and r not in assigned:
                    raise Violation("temporary %s is read in output line %d before the same statement group assigns it: %r" % (r, ln.lineno, ln.raw[:160]), case)
            assigned |= set(writes)


def check_case(case):
    if "prog" not in case and "source" in case:
        return check_template_case(case)
    prog = case["prog"]
    script = case.get("script") or {"BUTTON": [1, 0, 1, 1, 0, 1, 0, 0] * 6, "POINT": [3, 4, 5, 6, 7, 8, 1, 2] * 6, "INKEY$": ["K", "", "Q", "Z", "", "M", "A", "7"] * 6,
                                    "JOYSTK": [5, 9, 33, 60, 2, 7, 11, 63] * 6, "INPUT": [3, 4, 5, 6, 7, 8]}
    try:
        cb = diff.run_source(prog, script=script)
        src, out = diff.translate(prog, case, {"initialize_vars": True}, paren_unary=case.get("paren_unary", False), source_override=case.get("source_override"))
        case["_source"] = src
    except Trivial as t:
        case["_trivial"] = t.why
        return None
    if cb.zero_trip_for:
        case["_trivial"] = "for_zero_trip (open finding)"
        return None
    static_check(out, prog, case)
    try:
        b9 = diff.run_translation(out, case, script=script)
    except Trivial as t:
        case["_trivial"] = t.why
        return None
    # Whether a printed number goes through the formatter is a matter of number formatting (README: differs; 'PRINT A+B'
    # bypasses it) and is not judged: formatter calls are left out of the exact sequence; explicit STR$ calls must occur,
    # in order, among the translation's ecb_str calls.
    want = [(PROC_OF[n], a) for n, a in cb.calls if n not in ("PRINTNUM", "STR$")]
    got = [(n, v[: N_IN[n]]) for n, v, _ in b9.runs if n in N_IN and n != "ecb_str"]
    explicit = [a[0] for n, a in cb.calls if n == "STR$"]
    fmt = [v[0] for n, v, _ in b9.runs if n == "ecb_str"]
    k = 0
    for x in explicit:
        while k < len(fmt) and not diff.ev_equal(fmt[k], x):
            k += 1
        if k >= len(fmt):
            raise Violation("STR$(%s) of the source has no corresponding ecb_str call (in order) in the translation" % diff.show_event(x), case)
        k += 1
    i = diff.first_event_diff([(n, tuple(a)) for n, a in want], [(n, tuple(a)) for n, a in got])
    if i >= 0:
        w = diff.show_event(want[i]) if i < len(want) else "<no further call>"
        g = diff.show_event(got[i]) if i < len(got) else "<no further call>"
        raise Violation("call %d of the converted functions: Color BASIC evaluates %s, the translation runs %s (%d vs %d calls in all)" % (i, w, g, len(want), len(got)), case)
    b9.events = [e for e in diff.normalise_b09_events(b9.events) if e[0] in ("print", "at", "input")]
    cb.events = [e for e in cb.events if e[0] in ("print", "at", "input")]
    diff.compare(cb, b9, case, what="printed values (a result overwritten before use?)")
    case["_calls"] = len(want)
    return None


def campaign(seed, n, switches=frozenset()):
    stats = Stats()

    def body(case):
        meta = case.pop("_meta")
        if meta.get("drawn_layout"):
            stats.classes["drawn_layout"] += 1
        case = dict(case)
        check_case(case)
        triv = case.get("_trivial")
        nt = not triv and (meta["n_conv"] >= 2 or meta["nested"])
        classes = ["slot_" + meta["slot"], "context_" + meta["ctx"]]
        if meta["nested"]:
            classes.append("nested_convertible")
        if triv:
            classes.append("trivial_" + triv.split(":")[0].split(" ")[0])
        for k, v in meta["excluded"].items():
            stats.excluded[k] += v
        stats.case(key=case["prog"], nontrivial=nt, classes=classes, sample={"source": (case.get("_source", "").replace("\r\n", "\n").replace("\r", "\n").split("\n") + ["", "", ""])[2]})

    core.run_hypothesis(body, cases(switches), seed=seed, max_examples=n, stats=stats)
    return stats


_CALL_RE = re.compile(r"\b(INT|VAL|INSTR|BUTTON|POINT|JOYSTK)\(|(HEX\$|STRING\$)\(|(INKEY\$)")
_PROC_OF = {"JOYSTK": "ecb_joystk", "INT": "ecb_int", "VAL": "ecb_val", "INSTR": "ecb_instr", "BUTTON": "ecb_button", "POINT": "ecb_point", "HEX$": "ecb_hex", "STRING$": "ecb_string", "INKEY$": "inkey"}
_TEMPLATE_NAMES = [["var", "A"], ["svar", "A"], ["var", "B"], ["var", "C"], ["var", "I"], ["var", "ZN"], ["svar", "ZS"], ["arr", "ZQ", []], ["var", "ZI"]]


def check_template_case(case):
    """The static oracle on one source text (a statement template in a block context)."""
    from collections import Counter

    src = case["source"]
    status, out = tool.try_convert(src, initialize_vars=True)
    case["_status"] = status
    if status != "ok":
        # every template converts in every context on the unchanged tree (measured): a refusal or a crash means a statement of the fragment,
        # and the calls in it, were lost
        raise Violation("the tool does not translate %r (%s: %s): every statement template is translated in every block context on the unchanged tree"
                        % (src, status, out[:120]), case)
    static_check(out, _TEMPLATE_NAMES, case)
    want = Counter()
    for m in _CALL_RE.finditer(src):
        want[_PROC_OF[m.group(1) or m.group(2) or m.group(3)]] += 1
    got = Counter()
    for ln in parse.parse_program(out):
        for s_ in ln.stmts:
            if s_.kind == "run" and s_.name.lower() in want.keys() | set(_PROC_OF.values()):
                got[s_.name.lower()] += 1
    if got != want:
        raise Violation("the source holds %s converted functions, the emitted text runs %s" % (dict(want), dict(got)), case)
    return None


def enumerate_contexts(part, nparts, switches=frozenset()):
    """Every statement template of the grammar (the C07 / C10 table) with an operand that must become a call (INT(A), HEX$(A)), in every block
    context: statically, no temporary is read before its statement group assigns it, and the emitted text holds exactly one RUN per converted
    function of the source - none lost, none duplicated (complete enumeration; the dynamic order check stays with the drawn programs)."""
    from collections import Counter
    from vf.props import c07

    stats = Stats()
    stmts = [t.format(n="INT(A)", s="HEX$(A)") for t in c10.NUM_SLOTS] + [t.format(n="INT(A)", s="HEX$(A)") for t in c10.STR_SLOTS] + c07.EXTRA_STATEMENTS
    # JOYSTK is kept out of the drawn programs by an open finding (its prologue and call interface, C10 / C14); what this enumeration checks -
    # acceptance, one RUN per function, temporaries assigned before they are read - is not touched by that finding, so JOYSTK is included here
    stmts += ["ZN=JOYSTK(0)", "ZN=JOYSTK(3)", "ZN=JOYSTK(A)", "ZN=JOYSTK(1-A)", "ZN=JOYSTK(INT(A))+JOYSTK(BUTTON(0))", "PRINT JOYSTK(A);JOYSTK(0)", "IF JOYSTK(A)>31 THEN 10"]
    k = 0
    for st_ in stmts:
        if st_.startswith(("INPUT ZQ", "READ ZQ", "ZN=VARPTR")) and "no_convertible_in_read_input_subscripts" in switches:
            stats.excluded["no_convertible_in_read_input_subscripts"] += 1
            continue
        for cname, ctx in c07.CONTEXTS:
            ends_line = st_.startswith(("REM", "'")) or "DATA" in st_
            has_if = st_.startswith("IF") or "NEXT" in st_ or "FOR " in st_
            if cname != "plain" and (ends_line and cname in ("after_colon", "if_then", "elseif_arm", "for_body")):
                continue
            if has_if and cname not in ("plain", "after_colon"):
                continue
            if st_.startswith("IF") and "ELSE" in st_ and "no_convertible_in_ifelse_cond" in switches:
                stats.excluded["no_convertible_in_ifelse_cond"] += 1
                continue
            k += 1
            if k % nparts != part:
                continue
            src = ctx.format(s=st_)
            case = {"source": src}
            stats.evaluations += 1
            stats.classes["context_" + cname] += 1
            try:
                check_template_case(case)
            except Violation as v:
                stats.fail(v.detail, v.case)
                return stats
            stats.classes["status_" + case.get("_status", "?")] += 1
            stats.nontrivial.add(core.digest(src))
    return stats


def plan(tier, seed, switches):
    if tier == "quick":
        return [("campaign", [dict(seed=seed * 100 + k, n=400, switches=switches) for k in range(4)]),
                ("enumerate_contexts", [dict(part=k, nparts=6, switches=switches) for k in range(6)])]
    return [("campaign", [dict(seed=seed * 1000 + k, n=4000, switches=switches) for k in range(16)]),
            ("enumerate_contexts", [dict(part=k, nparts=6, switches=switches) for k in range(6)])]
