"""C20 - bundled string helpers compute the Color BASIC function they stand for.

The text of ecb_instr, ecb_string and ecb_read_filter is cut out of the
current ecb.b09, parsed and *executed* by the BASIC09 reference interpreter
with the output parameter pre-set to a sentinel, over exhaustively enumerated
small domains; the result must equal the Color BASIC definition."""
import itertools
from fractions import Fraction

from vf import core, sem, tool
from vf.b09 import interp as b09i
from vf.b09 import parse
from vf.core import Stats, Violation

ID = "C20"
ALL_EXHAUSTIVE = True  # the whole plan enumerates finite domains (the STRING$ counts completely only in the thorough tier)
RULE = (
    "exhaustive enumeration: INSTR - subject over {A,B} of length 0..5, pattern of length 1..3, start 1..6 (7 812 cases); STRING$ - counts "
    "0..255 x 14 strings of length 1..3 (a stride of counts in the quick tier); read filter - the empty item and the Python str(float) "
    "spelling of every literal of a table of positional, exponent and signed numerals. Non-trivial: INSTR cases where the pattern occurs "
    "more than once, not at all, or only before the start index; STRING$ with count 0, 1, 255; distinct by the argument tuple"
)
ASSUMPTIONS = [
    "B09-4 / B09-5 / B09-8 of DESIGN.md section 3 (FOR tests before the first iteration, INTEGER variables, MID$/LEN/VAL, string capacity)",
    "the library text is instantiated with a string size of 255, as a user needing such strings must request",
    "an empty INSTR pattern is left out (edge not asserted)",
]

SENTINEL_NUM = Fraction(-777)
SENTINEL_STR = "<unset>"


def load_procs():
    text = tool.ecb_text().replace("\r\n", "\n").replace("\r", "\n").replace("<<>>", "[255]")
    lines = parse.parse_program(text)
    return b09i.compile_program(lines)


_procs = None


def call(name, inputs, out_is_string):
    global _procs
    if _procs is None:
        _procs = load_procs()
    it = b09i.B09Interp(_procs, step_limit=20000, contracts={})
    it.real_procs = set(_procs)
    refs = [b09i.Ref(None, None, temp=v) for v in inputs]
    out = b09i.Ref(None, None, temp=SENTINEL_STR if out_is_string else SENTINEL_NUM)
    refs.append(out)
    it.main_env = None
    try:
        it.call_proc(name, refs)
    except b09i.B09RuntimeError as e:
        return ("error", e.code)
    except (b09i.B09Error, sem.DomainError, sem.StepLimit) as e:
        return ("fault", "%s: %s" % (type(e).__name__, e))
    # BASIC09 passes variables by reference: a helper that changes one of its *input* parameters changes the caller's variable
    for k_, (r_, v_) in enumerate(zip(refs[:-1], inputs)):
        if r_.temp != v_:
            return ("fault", "input parameter %d was changed from %r to %r (parameters are passed by reference: the caller's variable is overwritten)" % (k_ + 1, v_, r_.temp))
    return ("value", out.temp)


def cb_instr(i, s, p):
    if i > len(s):
        return 0
    return s.find(p, i - 1) + 1


def check_case(case):
    f = case["fn"]
    if f == "instr":
        i, s, p = case["args"]
        r = call("ecb_instr", [Fraction(i), s, p], False)
        want = cb_instr(i, s, p)
        if r != ("value", Fraction(want)):
            raise Violation("ecb_instr(%d, %r, %r) gives %s, Color BASIC INSTR gives %d" % (i, s, p, show(r), want), case)
    elif f == "string":
        n, s = case["args"]
        r = call("ecb_string", [Fraction(n), s], True)
        want = s[0] * n
        if r != ("value", want):
            raise Violation("ecb_string(%d, %r) gives %s, Color BASIC STRING$ gives %r" % (n, s, show(r), want), case)
    elif f == "filter_via_tool":
        from vf.b09 import parse as bp
        from fractions import Fraction as _F

        (lit,) = case["args"]
        status, out = tool.try_convert("10 READ A,B\n20 DATA %s," % lit, add_standard_prefix=False, add_suffix=False)
        if status != "ok":
            return None
        text = None
        for ln in bp.parse_program(out):
            for st_ in ln.stmts:
                if st_.kind == "data" and st_.items and st_.items[0][0] == "str":
                    text = st_.items[0][1]
        if text is None:
            raise Violation("no string DATA item emitted for numeric item %s in a program with an empty DATA item" % lit, case)
        r = call("ecb_read_filter", [text], False)
        want = sem.val_of(lit)
        if r[0] != "value" or isinstance(r[1], str) or not sem.close(r[1], want, rel=1e-9):
            raise Violation("DATA item %s is emitted as %r, which the read filter turns into %s (Color BASIC reads %s)" % (lit, text, show(r), float(want)), case)
    elif f == "filter":
        (s,) = case["args"]
        r = call("ecb_read_filter", [s], False)
        want = Fraction(0) if s == "" else sem.val_of(s)
        if r[0] != "value" or isinstance(r[1], str) or not sem.close(r[1], want):
            raise Violation("ecb_read_filter(%r) gives %s, expected %s" % (s, show(r), float(want)), case)
    return None


def show(r):
    if r[0] == "value":
        if r[1] == SENTINEL_NUM or r[1] == SENTINEL_STR:
            return "no result (output parameter never assigned)"
        return repr(float(r[1])) if not isinstance(r[1], str) else repr(r[1])
    return "%s %s" % r


def strings(alphabet, lo, hi):
    for n in range(lo, hi + 1):
        for t in itertools.product(alphabet, repeat=n):
            yield "".join(t)


def enum_instr(part, nparts, switches=frozenset()):
    stats = Stats()
    k = 0
    for s in strings("AB", 0, 5):
        for p in strings("AB", 1, 3):
            for i in range(1, 7):
                k += 1
                if k % nparts != part:
                    continue
                case = {"fn": "instr", "args": [i, s, p]}
                occ = sum(1 for j in range(len(s)) if s.startswith(p, j))
                first = s.find(p) + 1
                nt = occ > 1 or occ == 0 or (first and first < i)
                stats.case(key=case, nontrivial=bool(nt), classes=["instr"], sample=case)
                try:
                    check_case(case)
                except Violation as v:
                    stats.fail(v.detail, v.case)
                    return stats
    stats.exhaustive = True
    return stats


STRS = ["A", "B", "*", "AB", "BA", "A ", " A", "ABC", "CBA", "AAA", "X Y", "-", "9", "a"]


def enum_string(counts, switches=frozenset()):
    stats = Stats()
    for n in counts:
        for s in STRS:
            case = {"fn": "string", "args": [n, s]}
            stats.case(key=case, nontrivial=n in (0, 1, 255), classes=["string"], sample=case)
            try:
                check_case(case)
            except Violation as v:
                stats.fail(v.detail, v.case)
                return stats
    stats.exhaustive = len(counts) == 256
    return stats


LITERALS = [0.0, 1.0, -1.0, 0.5, -0.5, 2.25, 10.0, 255.0, 65535.0, 1234.5678, 1e16, 1e-5, -1e-5, 1.5e20, 3.0, 100000.0, 0.001, 123456789.0, 1e22, 5e-324,
            0.1, 0.2, 0.3, 7.0, 12.0, 99.99, 1e15, 1e17, 2.5e-7, -0.0]


def enum_filter(switches=frozenset()):
    stats = Stats()
    cases = [""] + [str(float(x)) for x in LITERALS]
    for s in cases:
        case = {"fn": "filter", "args": [s]}
        stats.case(key=case, nontrivial=True, classes=["filter_exponent_form" if "e" in s else ("filter_empty" if s == "" else "filter_positional")], sample=case)
        try:
            check_case(case)
        except Violation as v:
            stats.fail(v.detail, v.case)
            return stats
    stats.exhaustive = True
    return stats


SOURCE_NUMERALS = ["0", "1", "-1", "0.5", "2.25", "255", "65535", "1234.5678", "1E16", "1E-5", "-1E-5", "1.5E20", "100000", "1234567", "3.141593", "16777216",
                   "999999999", "1.234567E10", "12345678", "0.000123456789", "7654321.5", "1E22", ".001", "99.99", "123456789"]


def enum_filter_via_tool(switches=frozenset()):
    """The numeral text handed to the filter is the one the tool's own DATA path writes for a source literal
    (a program with an empty DATA item makes the tool turn numeric items into strings)."""
    from vf.b09 import parse as bp

    stats = Stats()
    for lit in SOURCE_NUMERALS:
        src = "10 READ A,B\n20 DATA %s," % lit
        status, out = tool.try_convert(src, add_standard_prefix=False, add_suffix=False)
        case = {"fn": "filter_via_tool", "args": [lit]}
        if status != "ok":
            stats.case(key=case, nontrivial=False, classes=["filter_via_tool_not_converted"], sample=case)
            continue
        text = None
        for ln in bp.parse_program(out):
            for st_ in ln.stmts:
                if st_.kind == "data" and st_.items and st_.items[0][0] == "str":
                    text = st_.items[0][1]
        stats.case(key=case, nontrivial=True, classes=["filter_via_tool"], sample={"source_literal": lit, "emitted_item": text})
        try:
            check_case(case)
        except Violation as v:
            stats.fail(v.detail, v.case)
            return stats
    return stats


def plan(tier, seed, switches):
    counts = list(range(256)) if tier == "thorough" else sorted(set(list(range(0, 256, 7)) + [0, 1, 2, 31, 32, 33, 127, 128, 254, 255]))
    return [("enum_instr", [dict(part=k, nparts=8) for k in range(8)]),
            ("enum_string", [dict(counts=counts[i::4]) for i in range(4)]),
            ("enum_filter", [dict()]), ("enum_filter_via_tool", [dict()])]
