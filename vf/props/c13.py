"""C13 - the emitted bundle contains exactly the procedures the program needs.

With dependencies on, an independent scanner (strings and comments tokenised
properly) splits the output into procedures and extracts RUN edges; the same
scanner on the current ecb.b09 gives the library call graph.  The bundle must
hold exactly the closure of the program's RUN targets, once each, in sorted
order, the program last; placeholders must be gone; user literals intact."""
import re

from hypothesis import strategies as st

from vf import core, tool
from vf.b09 import lex, lib, parse
from vf.cb import render
from vf.core import Stats, Violation
from vf.gen import full

ID = "C13"
RULE = (
    "full-grammar programs built by Hypothesis (any subset of runtime-using statements; string literals, DATA items and comments containing "
    "'RUN x', 'procedure y', ': STRING<<>>' and odd numbers of quotes in comments) x procedure names over [A-Za-z_][A-Za-z0-9_]* incl. "
    "look-alikes of library names x default string sizes 32 / 33..255. Non-trivial: the dependency closure has >= 3 procedures or a "
    "literal contains a trigger word; distinct by sha1 of (program, procname, size)"
)
RULE += " Also (complete enumeration on every run): every device statement form and converted function as a one-line program at sizes 32 / 80 / 1000 under two procedure names; short programs whose only call of a library procedure sits in front of 9-24 string literals; literals and DATA items of the bundle's user procedure are compared with the source AST; one case in three in a drawn layout."
ASSUMPTIONS = [
    "OS-9 system modules that may be RUN without being bundled: gfx, gfx2, syscall, inkey",
    "'alphabetical order' is the ordinary string order of the (lower-case) procedure names",
]

TRIGGERS = ['RUN ecb_hdraw', 'run ecb_play(1)', 'procedure ecb_cls', 'PROCEDURE foo', ': STRING<<>>', ':STRING<<>>', 'A RUN B', '\\ RUN ecb_sound']


def literals_of(text):
    """All string literals (incl. DATA items) of a BASIC09 text, in order."""
    out = []
    for raw in text.split("\n"):
        try:
            toks = lex.tokenize_line(raw.rstrip("\r"))
        except lex.LexError:
            continue
        out += [t.text for t in toks if t.kind == "str"]
    return out


def check_case(case):
    src = case["source"] if "source" in case else render.render(case["prog"], paren_unary=case.get("paren_unary", False))
    case["_source"] = src
    size = case.get("size", 32)
    procname = case.get("procname", "prog")
    base_opts = {"initialize_vars": case.get("initialize_vars", False), "default_str_storage": size}
    status, plain = tool.try_convert(src, **base_opts)
    case["_status"] = status
    if status != "ok":
        return None
    try:
        parse.parse_program(plain)
    except parse.B09SyntaxError:
        case["_status"] = "unparsable"  # malformed user part: C07's business
        return None
    status, out = tool.try_convert(src, output_dependencies=True, procname=procname, **base_opts)
    if status != "ok":
        case["_status"] = "bundle_" + status
        if status == "refused":
            raise Violation("conversion succeeds without dependencies but is refused with them (%s)" % out, case)
        return None
    try:
        procs, _ = lib.scan(out)
    except parse.B09SyntaxError as e:
        raise Violation("bundle does not scan as BASIC09 procedures: %s" % e, case)
    libprocs = lib.library()
    names_ = [p.name for p in procs]
    if not names_ or names_[-1] != procname:
        raise Violation("the program's own procedure %r is not the last procedure of the bundle (order: %r)" % (procname, names_[-6:]), case)
    user = procs[-1]
    roots = {c for c, _, _ in user.runs}
    expected = lib.closure(roots, libprocs)
    bundled = [n.lower() for n in names_[:-1]]
    if len(set(bundled)) != len(bundled):
        raise Violation("a library procedure is bundled more than once: %r" % sorted({n for n in bundled if bundled.count(n) > 1}), case)
    missing = sorted(expected - set(bundled))
    extra = sorted(set(bundled) - expected)
    if missing:
        raise Violation("procedures reachable through RUN are missing from the bundle: %r" % missing, case)
    if extra:
        raise Violation("procedures not reachable from the program are bundled: %r" % extra, case)
    if bundled != sorted(bundled):
        raise Violation("bundled procedures are not in alphabetical order: %r" % bundled, case)
    bundle_names = set(bundled) | {procname.lower()}
    for p in procs:
        for callee, _, lineno in p.runs:
            if callee not in bundle_names and callee not in lib.SYSTEM_MODULES:
                raise Violation("RUN %s in procedure %s names neither a bundled procedure nor a system module" % (callee, p.name), case)
    # placeholders: none left outside string literals; every former placeholder reads STRING / STRING[n]
    user_literals = literals_of(plain)
    for raw in out.split("\n"):
        try:
            toks = lex.tokenize_line(raw.rstrip("\r"))
        except lex.LexError:
            # '<' '<' '>' '>' lex fine; a LexError here means something else is wrong
            raise Violation("bundle line does not tokenise: %r" % raw[:100], case)
        code = " ".join(t.text for t in toks if t.kind not in ("str", "comment"))
        if "< <" in code or "<<" in code.replace(" ", "") and ">>" in code.replace(" ", ""):
            if re.search(r"<\s*<\s*>\s*>", code):
                raise Violation("string-size placeholder left in the bundle: %r" % raw[:100], case)
    want_decl = "STRING" if size == 32 else "STRING[%d]" % size
    rawlib = tool.ecb_text().replace("\r\n", "\n").replace("\r", "\n")
    # count placeholders of the expected procedures in the raw library and sized declarations in the bundle
    n_place = 0
    cur = None
    for raw in rawlib.split("\n"):
        m = re.match(r"(?i)\s*procedure\s+(\w+)\s*$", raw)
        if m:
            cur = m.group(1).lower()
        elif cur in expected and re.search(r"(?i)string<<>>", raw):
            n_place += len(re.findall(r"(?i)string<<>>", raw))
    if size != 32:
        n_sized = 0
        for p in procs[:-1]:
            for ln in p.lines:
                n_sized += len(re.findall(r"(?i):\s*STRING\[%d\]" % size, ln.raw))
        if n_sized < n_place:
            raise Violation("%d string-size placeholders of the bundled procedures should read STRING[%d], only %d do" % (n_place, size, n_sized), case)
    got_literals = literals_of("\n".join(ln.raw for ln in user.lines))
    if got_literals != user_literals:
        raise Violation("string literals / DATA items of the user's program changed when dependencies were bundled: %r vs %r"
                        % (got_literals[:5], user_literals[:5]), case)
    if "prog" in case:
        # ... and against the source itself: every literal and DATA item of the program is in the user's procedure (the property does not
        # speak about comments: a placeholder spelled inside a REM is rewritten like the library's, which is outside its wording)
        from vf.props import c08

        c08.check_content(case["prog"], "\n".join(ln.raw for ln in user.lines), case, with_comments=False)
    case["_closure"] = len(expected)
    return None


def _open(stmt):
    """An assignment whose string literal is left open swallows the rest of its line: nothing may be appended after it."""
    return stmt[0] == "let" and len(stmt) > 4


@st.composite
def cases(draw, switches):
    c = draw(full.full_programs(switches, max_lines=6, operand_depth=1))
    prog = c["prog"]
    if draw(st.integers(0, 9)) == 0:
        # a short program whose only call of some library procedure sits on a long output line, in front of many string literals
        k = draw(st.integers(9, 24))
        lits = [["e", ["str", "S%d" % i]] for i in range(k)]
        items = []
        for it in lits:
            items += [it, ["s", ";"]]
        call = draw(st.sampled_from([["fn", "INT", [["var", "A"]]], ["var", "A"], ["fn", "VAL", [["str", "12"]]], ["fn", "HEX$", [["num", "255", 255]]],
                                     ["fn", "STRING$", [["num", "3", 3], ["str", "*"]]], ["fn", "INSTR", [["num", "1", 1], ["str", "AB"], ["str", "B"]]]]))
        prog[:] = [[10, [["print", [["e", call], ["s", ";"]] + items[:-1]]]]]
        c["_meta"]["kinds"] = sorted(set(c["_meta"]["kinds"]) | {"call_before_many_literals"})
    trig = False
    # plant trigger words in literals, DATA items and comments
    for _ in range(draw(st.integers(0, 3))):
        t = draw(st.sampled_from(TRIGGERS))
        where = draw(st.sampled_from(["str", "data", "rem"]))
        line = prog[draw(st.integers(0, len(prog) - 1))]
        if where == "rem" and "no_run_in_comments" in switches and "RUN" in t.upper():
            where = "str"
        if where == "str":
            line[1].insert(0, ["let", ["svar", "T"], ["str", t], False])
        elif where == "data":
            if line[1][-1][0] in ("rem", "if") or _open(line[1][-1]):
                line[1].insert(0, ["let", ["svar", "T"], ["str", t], False])
            else:
                line[1].append(["data", [["q", t], ["q", ""]]])
        else:
            if line[1][-1][0] == "rem":
                line[1][-1] = ["rem", " " + t + draw(st.sampled_from(["", ' "', ' "x" "'])), "REM"]
            elif line[1][-1][0] != "if" and not _open(line[1][-1]):
                line[1].append(["rem", " " + t + draw(st.sampled_from(["", ' "', ' "x" "'])), draw(st.sampled_from(["REM", "'"]))])
        trig = True
    if "no_run_in_comments" in switches:
        for _, stmts in prog:
            for s in stmts:
                if s[0] == "rem" and "RUN" in s[1].upper():
                    s[1] = s[1].upper().replace("RUN", "RAN")
    libnames = sorted(lib.library())
    pn = draw(st.one_of(st.sampled_from(["prog", "a", "Main_1", "_x", "ecb", "ecb_clsx", "x_ecb_cls", "P9"]),
                        st.sampled_from(libnames) if "procname_not_library_name" not in switches else st.just("prog2")))
    c["procname"] = pn
    c["size"] = draw(st.sampled_from([32, 32, 33, 80, 255, 1, 2, 256, 1000, 32766]))
    c["initialize_vars"] = draw(st.booleans())
    c["paren_unary"] = "paren_unary" in switches
    c["_meta"]["trigger"] = trig
    return full.add_layout(draw, c, switches)


FUNCTION_PROBES = ['10 A=INT(B)', '10 A=VAL("1")', '10 A$=STR$(B)', '10 A$=HEX$(B)', '10 A=INSTR(1,A$,"B")', '10 A$=STRING$(3,"*")', '10 A$=INKEY$', '10 A=BUTTON(0)',
                   '10 A=POINT(1,2)', '10 PRINT A', '10 PRINT@5,A', '10 INPUT A', '10 LINE INPUT A$', '10 READ A\n20 DATA 1,', '10 ON ERR GOTO 10', '10 PRINT TAB(3);"X"',
                   '10 PLAY "CDE":HDRAW "U5":A$=STRING$(2,"*"):PRINT A:INPUT B', '10 HBUFF 1,20:HGET(1,1)-(2,2),1:HPUT(1,1)-(2,2),1,PSET']


def enumerate_library(part, nparts, switches=frozenset()):
    """Every device statement form and every converted function as a one-line program, at three string sizes and two procedure names: the bundle
    of each must be complete, minimal, ordered, and have every placeholder replaced (so every library procedure's closure is exercised each run)."""
    stats = Stats()
    sources = []
    for form in full.DEVICE_FORMS:
        if form == "HPRINT n" and "hprint_string_only" in switches:
            continue
        if form.startswith("JOYSTK") and "no_joystk" in switches:
            continue
        fg = full.FullGen(None, switches, operand_depth=0)
        counter = [1]

        def lit():
            counter[0] += 1
            return ["num", str(counter[0]), counter[0]]

        fg.e = lit
        fg.first_operand = lit
        fg.width_operand = lambda: ["num", "40", 40]
        fg.es = lambda: ["str", "S%d" % counter[0]]
        s_ = ["poke", ["num", "1024", 1024], ["num", "7", 7]] if form == "POKE" else fg.device(form)[0]
        sources.append(("form " + form, render.render([[10, [s_]]])))
    sources += [("probe " + p_[3:20], p_) for p_ in FUNCTION_PROBES]
    k = 0
    for label, src in sources:
        for size in (32, 80, 1000):
            for pn in ("prog", "zz_last"):
                k += 1
                if k % nparts != part:
                    continue
                case = {"source": src, "size": size, "procname": pn, "initialize_vars": size == 80}
                try:
                    check_case(case)
                except Violation as v:
                    stats.fail(v.detail, v.case)
                    return stats
                stats.case(key=[src, size, pn], nontrivial=case.get("_status") == "ok", classes=["library_sweep", "status_" + case.get("_status", "?")] +
                           (["closure_ge_3"] if case.get("_closure", 0) >= 3 else []), sample={"source": src, "size": size})
    return stats


def campaign(seed, n, switches=frozenset()):
    stats = Stats()

    def body(case):
        meta = case.pop("_meta")
        if meta.get("drawn_layout"):
            stats.classes["drawn_layout"] += 1
        case = dict(case)
        check_case(case)
        nt = case.get("_status") == "ok" and (case.get("_closure", 0) >= 3 or meta["trigger"])
        classes = ["status_" + case.get("_status", "?")]
        if meta["trigger"]:
            classes.append("literal_with_trigger_word")
        if case.get("_closure", 0) >= 3:
            classes.append("closure_ge_3")
        if case["size"] != 32:
            classes.append("non_default_size")
        for k, v in meta["excluded"].items():
            stats.excluded[k] += v
        stats.case(key=[case["prog"], case["procname"], case["size"]], nontrivial=nt, classes=classes,
                   sample={"source": case["_source"], "procname": case["procname"], "size": case["size"]})

    core.run_hypothesis(body, cases(switches), seed=seed, max_examples=n, stats=stats)
    return stats


def plan(tier, seed, switches):
    if tier == "quick":
        return [("campaign", [dict(seed=seed * 100 + k, n=200, switches=switches) for k in range(4)]),
                ("enumerate_library", [dict(part=k, nparts=4, switches=switches) for k in range(4)])]
    return [("campaign", [dict(seed=seed * 1000 + k, n=2000, switches=switches) for k in range(16)]),
            ("enumerate_library", [dict(part=k, nparts=4, switches=switches) for k in range(4)])]


def evidence_extra(stats):
    return {"exhaustive_part": "every device statement form and every converted function is bundled as a one-line program at sizes 32 / 80 / 1000 under two procedure names on every run"}
