"""C15 - any input is either converted or refused with a documented error.

Grammar-directed programs with token mutations, spliced programs, extreme
literals, deep nesting, all option sets, valid and invalid size maps, and
input file names through the command line.  Oracle: convert() returns text or
raises a documented refusal (parsimonious ParseError, compiler.ParseError,
LineNumberTooLargeException, pydantic ValidationError); anything else -
including parsimonious VisitationError, which wraps an arbitrary exception
raised inside the tool's visitor - is an internal failure; no hang."""
import json
import os
import re
import signal
import traceback

from hypothesis import strategies as st

from vf import core, tool
from vf.cb import render
from vf.core import Stats, Violation
from vf.gen import full

ID = "C15"
RULE = (
    "full-grammar programs built by Hypothesis, rendered and then mutated at token level (0-5 deletions / duplications / swaps / replacements "
    "by other tokens of the program or by extreme literals such as 1E999, 40-digit numbers, &HFFFFFF, '.', '1E'), lines of two programs "
    "spliced, expressions wrapped in up to 200 parentheses, raw printable text; x drawn option sets incl. procedure names over [A-Za-z0-9_-.]+ and "
    "valid / invalid size maps; plus input file names over [A-Za-z0-9_-]+ through decb_to_b09.start in a scratch directory, half of them with a "
    "-c configuration file of the documented shape, a near-miss shape or any JSON-expressible shape (always well-formed YAML). Non-trivial: a "
    "mutated program that still parses, or one refused by a post-parse check; distinct by sha1 of (text, options)"
)
RULE += ' Extreme numerals include six- and seven-digit ones ending in zeros; the command-line cases carry, one in two, a -c configuration file of the documented, a near-miss or an arbitrary JSON-expressible shape.'
ASSUMPTIONS = [
    "a configuration file is well-formed YAML without duplicate keys (a YAML syntax error is the YAML reader's refusal, not one of the tool's: not asserted either way)",
    "documented refusals: parsimonious ParseError (incl. IncompleteParseError), coco.b09.compiler.ParseError, LineNumberTooLargeException, pydantic ValidationError",
    "'never hangs' is judged as: finishes within 20 s on inputs <= 4 KB (normal cost: milliseconds), re-run once with 120 s before judging",
    "recorded internal failures are recognised by (exception type, innermost function inside coco/), i.e. by call site; any other site is a violation",
]


class _Timeout(Exception):
    pass


def _alarm(signum, frame):
    raise _Timeout()


def bucket_of(exc):
    """(exception type name, 'file.py:function') of the innermost frame inside the coco package."""
    chain = []
    e = exc
    seen = set()
    while e is not None and id(e) not in seen:
        seen.add(id(e))
        chain.append(e)
        e = e.__cause__ or e.__context__
    site = None
    inner_type = type(chain[-1]).__name__
    for e in chain:
        tb = e.__traceback__
        for fs in traceback.extract_tb(tb):
            fn = fs.filename.replace("\\", "/")
            if "/coco/" in fn:
                site = "%s:%s" % (os.path.basename(fn), fs.name)
                inner_type_candidate = type(e).__name__
        if site:
            pass
    # the innermost exception that is not a VisitationError tells the kind
    for e in chain:
        if type(e).__name__ != "VisitationError":
            inner_type = type(e).__name__
    msg = ""
    for e in chain:
        if type(e).__name__ != "VisitationError":
            msg = str(e)
    return inner_type, site or "?", msg[:200]


def open_buckets():
    path = os.path.join(core.VERIF_ROOT, "known_findings.json")
    out = {}
    try:
        with open(path) as f:
            d = json.load(f)
    except OSError:
        return out
    for x in d.get("findings", []):
        if "C15" in x.get("property", []) and x.get("status") == "open":
            for b in x.get("buckets", []):
                out.setdefault((b[0], b[1]), []).append((b[2] if len(b) > 2 else "", x["id"]))
    return out


def listed(bucket):
    """finding id when (type, site[, message part]) is a recorded call site"""
    ob = open_buckets()
    for key in ((bucket[0], bucket[1]), (bucket[0], "*")):
        for substr, fid in ob.get(key, []):
            if substr in bucket[2]:
                return fid
    return None


def run_convert(src, opts, limit):
    old = signal.signal(signal.SIGALRM, _alarm)
    signal.alarm(limit)
    try:
        try:
            out = tool.convert(src, **opts)
            return ("ok", out)
        except _Timeout:
            return ("hang", None)
        except RecursionError as e:
            return ("internal", ("RecursionError", "*", ""))
        except Exception as e:  # noqa
            if tool.is_internal_error(e):
                return ("internal", bucket_of(e))
            return ("refused", type(e).__name__)
    finally:
        signal.alarm(0)
        signal.signal(signal.SIGALRM, old)


def check_case(case):
    if case.get("kind") == "cli":
        return check_cli(case)
    src = case["source"]
    opts = dict(case.get("options", {}))
    r = run_convert(src, opts, 20)
    if r[0] == "hang":
        r = run_convert(src, opts, 120)
        if r[0] == "hang":
            raise Violation("convert() does not return within 120 s on a %d-byte input" % len(src), case)
    case["_status"] = r[0]
    if r[0] == "ok":
        if not isinstance(r[1], str):
            raise Violation("convert() returned %r instead of text" % type(r[1]).__name__, case)
        return None
    if r[0] == "refused":
        case["_refusal"] = r[1]
        return None
    bucket = r[1]
    fid = listed(bucket)
    if fid:
        return fid
    raise Violation("internal failure instead of a documented refusal: %s raised in %s (%s)" % bucket, case)


def check_cli(case):
    from coco import decb_to_b09

    with tool.scratch_dir() as d:
        inp = os.path.join(d, case["stem"] + ".bas")
        outp = os.path.join(d, "o.b09")
        with open(inp, "w") as f:
            f.write(case["source"])
        extra = []
        if case.get("config_text") is not None:
            cp = os.path.join(d, "conf.yaml")
            with open(cp, "w") as f:
                f.write(case["config_text"])
            extra = ["-c", cp]
        try:
            with tool.quiet():
                decb_to_b09.start([inp, outp] + list(case.get("argv", [])) + extra)
            case["_status"] = "ok"
            return None
        except SystemExit:
            case["_status"] = "refused"
            return None
        except RecursionError:
            bucket = ("RecursionError", "*", "")
        except Exception as e:  # noqa
            if not tool.is_internal_error(e):
                case["_status"] = "refused"
                case["_refusal"] = type(e).__name__
                return None
            bucket = bucket_of(e)
    case["_status"] = "internal"
    fid = listed(bucket)
    if fid:
        return fid
    raise Violation("command line fails with an internal error for input file name %r: %s raised in %s" % (case["stem"] + ".bas", bucket[0], bucket[1]), case)


TOKEN_RE = re.compile(r'"[^"\n]*"?|[A-Z][A-Z0-9]*\$?|\d+\.?\d*|&H[0-9A-F]*|<=|>=|<>|.', re.S)
EXTREME = ["100000", "1000000", "000010", "65536", "32768", "2147483648", "4294967296", "1E38", "1E39", "1E999", "1E-999", "9" * 40, "&HFFFFFF", ".", "1E", "+-1", "65535", "32700", "0", "-", "(", ")", ",", ":", '"', "$", "ELSE", "THEN", "NOT",
           "TO", "&H", "1E+", "..", "5.5.5", "99999999999", "%", "@", "#", "\t", "~", "REM", "'", "DATA", ";", "=", "GOTO 99999"]


@st.composite
def mutated(draw, switches):
    c = draw(full.full_programs(switches, max_lines=5, operand_depth=2))
    src = render.render(c["prog"], paren_unary="paren_unary" in switches)
    kind = draw(st.sampled_from(["mutate", "mutate", "mutate", "splice", "nest", "none", "raw", "lines", "lines", "longtext"]))
    n_mut = 0
    if kind == "mutate":
        toks = TOKEN_RE.findall(src)
        n_mut = draw(st.integers(1, 5))
        for _ in range(n_mut):
            if not toks:
                break
            i = draw(st.integers(0, len(toks) - 1))
            op = draw(st.sampled_from(["del", "dup", "swap", "repl", "extreme"]))
            if op == "del":
                del toks[i]
            elif op == "dup":
                toks.insert(i, toks[i])
            elif op == "swap":
                j = draw(st.integers(0, len(toks) - 1))
                toks[i], toks[j] = toks[j], toks[i]
            elif op == "repl":
                toks[i] = toks[draw(st.integers(0, len(toks) - 1))]
            else:
                toks[i] = draw(st.sampled_from(EXTREME))
        src = "".join(toks)
    elif kind == "longtext":
        # long string literals and comments with trigger words and stray quotes (pattern matching over the emitted text must stay linear)
        words = ["PRESS", "ENTER", "TO", "RUN", "THE", "SIMULATION", "AGAIN", "OR", "Q", "QUIT", "PROCEDURE", "STRING", "X1", "RUN ecb_cls", ": STRING<<>>"]
        text = " ".join(draw(st.lists(st.sampled_from(words), min_size=6, max_size=22)))
        where = draw(st.sampled_from(["print", "assign", "rem", "rem_quote", "data", "partial"]))
        stmt = {"print": 'PRINT "%s"' % text, "assign": 'A$="%s"' % text[:200], "rem": "REM " + text, "rem_quote": "REM " + text[:len(text) // 3] + ' " ' + text[len(text) // 3:],
                "data": 'DATA "%s",%s' % (text, text.replace(",", " ").replace(":", " ")), "partial": 'A$="' + text}[where]
        src = src + "\n9000 " + stmt
    elif kind == "lines":
        # delete / duplicate / swap whole lines or whole statements (unbalanced FOR/NEXT, orphaned ELSE, repeated handlers ...)
        ls = src.split("\n")
        n_mut = draw(st.integers(1, 3))
        for _ in range(n_mut):
            if not ls:
                break
            i = draw(st.integers(0, len(ls) - 1))
            op = draw(st.sampled_from(["del", "dup", "swap", "delstmt", "dupstmt"]))
            if op == "del":
                del ls[i]
            elif op == "dup":
                ls.insert(i, ls[i])
            elif op == "swap":
                j = draw(st.integers(0, len(ls) - 1))
                ls[i], ls[j] = ls[j], ls[i]
            else:
                parts = ls[i].split(":")
                q = draw(st.integers(0, len(parts) - 1))
                if op == "delstmt" and len(parts) > 1 and q > 0:
                    del parts[q]
                elif op == "dupstmt":
                    parts.insert(q + 1, parts[q] if q > 0 else parts[q].split(" ", 1)[-1])
                ls[i] = ":".join(parts)
        src = "\n".join(ls)
    elif kind == "splice":
        c2 = draw(full.full_programs(switches, max_lines=4, operand_depth=1))
        l1 = src.split("\n")
        l2 = render.render(c2["prog"]).split("\n")
        k = draw(st.integers(0, len(l1)))
        src = "\n".join(l1[:k] + l2[draw(st.integers(0, len(l2) - 1)):] + l1[k:])
    elif kind == "nest":
        depth = draw(st.sampled_from([5, 20, 60, 100, 150, 200]))
        if depth > 60 and "nesting_le_60" in switches:
            depth = 60
        inner = draw(st.sampled_from(["1", "A", "A+1", 'LEN("X")']))
        src = "10 A=" + "(" * depth + inner + ")" * depth + "\n" + src.replace("10 ", "11 ", 1)
    elif kind == "raw":
        src = draw(st.text(alphabet=st.sampled_from(list(' 0123456789ABCDEFGHIJKLMNOPQRSTUVWXYZ$"(),:;=+-*/^<>.&?\n\r@\'')), min_size=0, max_size=60))
    opts = {}
    for k in ("filter_unused_linenum", "initialize_vars", "add_standard_prefix", "add_suffix", "default_width32", "skip_procedure_headers"):
        if draw(st.integers(0, 3)) == 0:
            opts[k] = draw(st.booleans())
    if draw(st.integers(0, 2)) == 0 or kind == "longtext":
        opts["output_dependencies"] = True
        pn = draw(st.one_of(st.sampled_from(["p", "my_prog", "", "a b", "x" * 40]), st.text(alphabet="abXY09_-.", min_size=0, max_size=8)))
        if ("-" in pn or "." in pn) and "procname_word_chars_only" in switches:
            pn = pn.replace("-", "_").replace(".", "_")
        opts["procname"] = pn
    if draw(st.integers(0, 3)) == 0:
        opts["default_str_storage"] = draw(st.sampled_from([1, 32, 33, 255, 32767, 100000]))
    if draw(st.integers(0, 4)) == 0:
        opts["string_configs"] = draw(st.sampled_from([{"A$": 5}, {"A$()": 300}, {"a$": 5}, {"A": 5}, {"A$": 0}, {"ABC$": 3}, {"Z9$": 32766}, {}]))
    return {"source": src, "options": opts, "_meta": {"kind": kind, "n_mut": n_mut, "excluded": c["_meta"]["excluded"]}}


@st.composite
def cli_names(draw, switches):
    stem = draw(st.text(alphabet="abcXYZ019_-", min_size=1, max_size=10))
    if "-" in stem and "procname_word_chars_only" in switches:
        stem = stem.replace("-", "_")
    if stem.startswith("-"):
        stem = "a" + stem  # a leading dash would be an option, not a file name
    src = draw(st.sampled_from(["10 PRINT \"HI\"", "10 CLS\n20 GOTO 10", "10 A$=STR$(5):HDRAW A$",
                                # characters beyond ASCII and beyond Latin-1 in comments, literals and DATA (pasted listings: typographic quotes, dashes, arrows)
                                "10 REM DON\u2019T PANIC \u2013 OK", "10 PRINT \"CAF\u00c9 \u2192 \u201cX\u201d\"", "10 DATA \u00e9t\u00e9,\u4e2d\n20 READ A$,B$",
                                "10 A$=\"\x0c\x85\u2028\":PLAY A$"]))
    argv = draw(st.lists(st.sampled_from(["-l", "-z", "-D", "-w"]), unique=True, max_size=3))
    case = {"kind": "cli", "stem": stem, "source": src, "argv": argv, "_meta": {"kind": "cli", "n_mut": 0, "excluded": {}}}
    if draw(st.booleans()):
        # a configuration file: always well-formed YAML (JSON is a subset of YAML), of the documented shape, of a near-miss shape or of any shape
        import json as _json

        names = st.one_of(st.sampled_from(["A$", "AB$", "A$()", "Z9$()", "a$", "A", "ABC$", "$", "A_$", "", "A$(", "1A$"]), st.text(alphabet="AZaz09$()_ ", max_size=5))
        sizes = st.one_of(st.sampled_from([1, 32, 32766, 0, -1, 32767, 10 ** 9, 5.5, "12", "x", None, True, [1], {}]), st.integers(-5, 40000))
        mapping = st.dictionaries(names, sizes, max_size=4)
        leaf = st.one_of(st.none(), st.booleans(), st.integers(-5, 70000), st.floats(allow_nan=False, allow_infinity=False, width=32), st.text(alphabet="AZaz09$() :-#", max_size=6))
        anything = st.recursive(leaf, lambda ch: st.one_of(st.lists(ch, max_size=3), st.dictionaries(st.text(alphabet="abz_$", max_size=6), ch, max_size=3)), max_leaves=8)
        shape = draw(st.integers(0, 5))
        if shape <= 2:
            obj = {"string_configs": {"strname_to_size": draw(mapping)}}
        elif shape == 3:
            obj = {draw(st.sampled_from(["string_configs", "string_config", "strname_to_size", "x"])): draw(st.one_of(mapping, anything))}
        elif shape == 4:
            obj = {"string_configs": draw(st.one_of(anything, st.fixed_dictionaries({"strname_to_size": anything})))}
        else:
            obj = draw(anything)
        case["config_text"] = _json.dumps(obj, indent=draw(st.sampled_from([None, 1])))
        case["_meta"]["kind"] = "cli_config"
    return case


def campaign(seed, n, switches=frozenset(), cli=False):
    stats = Stats()

    def body(case):
        meta = case.pop("_meta")
        case = dict(case)
        fid = check_case(case)
        st_ = case.get("_status", "?")
        classes = ["kind_" + meta["kind"], "status_" + st_]
        if fid:
            stats.known[fid] += 1
            classes.append("tolerated_listed_finding")
        if st_ == "refused" and case.get("_refusal"):
            classes.append("refusal_" + case["_refusal"])
        nt = (meta["kind"] in ("mutate", "splice", "nest") and st_ == "ok") or (st_ == "refused" and case.get("_refusal") in ("ParseError", "LineNumberTooLargeException", "ValidationError"))
        for k, v in meta["excluded"].items():
            stats.excluded[k] += v
        stats.case(key=case, nontrivial=nt or (meta["kind"] in ("cli", "cli_config") and st_ == "ok"), classes=classes,
                   sample={k: v for k, v in case.items() if not k.startswith("_")})

    core.run_hypothesis(body, cli_names(switches) if cli else mutated(switches), seed=seed, max_examples=n, stats=stats)
    return stats


def fuzz(seed, runs, corpus, switches=frozenset()):
    """Coverage-guided byte fuzzing of convert() with atheris/libFuzzer (thorough tier extra)."""
    import subprocess
    import sys

    stats = Stats()
    try:
        sys.path.append(os.path.join(core.VERIF_ROOT, ".deps"))
        import atheris  # noqa: F401
    except Exception as e:  # noqa
        stats.inconclusive["atheris_not_installed"] += 1
        stats.notes.append("atheris campaign skipped: %s" % e)
        return stats
    with tool.scratch_dir() as d:
        cdir = os.path.join(d, "corpus")
        os.makedirs(cdir)
        if corpus == "examples":
            for i, (name, src) in enumerate(tool.example_programs()):
                for k in range(2):
                    with open(os.path.join(cdir, "ex%d_%d" % (i, k)), "wb") as f:
                        f.write(bytes([k * 2]) + src.encode("latin1", "replace")[:1500])
        found = os.path.join(d, "found.json")
        cmd = [sys.executable, os.path.join(core.VERIF_ROOT, "vf", "props", "c15_fuzz.py"), cdir, found, "-runs=%d" % runs, "-seed=%d" % max(1, seed),
               "-max_len=%d" % (2000 if corpus == "examples" else 300), "-timeout=60", "-rss_limit_mb=4096"]
        p = subprocess.run(cmd, stdout=subprocess.PIPE, stderr=subprocess.PIPE, cwd=core.VERIF_ROOT)
        res = {"found": {}, "count": {}}
        if os.path.exists(found):
            with open(found) as f:
                res = json.load(f)
        tail = p.stderr.decode("utf-8", "replace")[-400:]
    cnt = res.get("count", {})
    stats.evaluations += int(cnt.get("n", 0))
    stats.classes["atheris_runs_%s_corpus" % corpus] += int(cnt.get("n", 0))
    stats.classes["atheris_converted"] += int(cnt.get("ok", 0))
    stats.classes["atheris_refused"] += int(cnt.get("refused", 0))
    stats.classes["atheris_listed_internal"] += int(cnt.get("internal_listed", 0))
    if cnt.get("ok"):
        stats.nontrivial.add(core.digest(["atheris", corpus, seed, "converted"]))
    if cnt.get("refused"):
        stats.nontrivial.add(core.digest(["atheris", corpus, seed, "refused"]))
    for key, f_ in res.get("found", {}).items():
        stats.fail("coverage-guided fuzzing: internal failure %s instead of a documented refusal" % f_["bucket"], {"source": f_["source"], "options": f_["options"]})
    if "timeout" in tail.lower() and "libfuzzer" in tail.lower():
        stats.fail("coverage-guided fuzzing: an input did not finish within 60 s: " + tail[-200:], {"source": "", "options": {}, "note": "see libFuzzer timeout artefact"})
    return stats


def enumerate_tokens(part, nparts, switches=frozenset()):
    """Every extreme token in every operand position of every statement and function (the slot table of C10: 144 templates), and as a DATA
    item, a line number and a jump target: text or a documented refusal, never an internal exception (complete enumeration)."""
    from vf.props import c10

    stats = Stats()
    templates = ["10 " + t for t in c10.NUM_SLOTS + c10.STR_SLOTS] + ["10 DATA {n},1\n20 READ A,B", "10 DATA 1,{n}\n20 READ A$,B$", "{n} A=1", "10 GOTO {n}", "10 ON A GOSUB 10,{n}",
                                                                        "10 DIM A({n})", "10 DIM A$({n},2)", "10 CLEAR {n}", "10 IF A=1 THEN {n}", "10 IF A=1 THEN 10 ELSE {n}",
                                                                        "10 ZN=JOYSTK({n})", "10 ZN=JOYSTK(A+{n})", "10 PRINT JOYSTK(A);JOYSTK({n})"]
    k = 0
    for tok in ["A", "1-A", "INT(A)", "0", "3", "4", "-1"] + EXTREME + ["&H ", "& H", "&HG", "&HOME", "1E5", ".5E-3", "1D5", "1E+", "0.", ".0", "00", "-0", "1.2.3", "&HFFFFFF0", "\"", "\"A", "A$$", "A%", "A!", "A#"]:
        for t in templates:
            k += 1
            if k % nparts != part:
                continue
            src = t.replace("{n}", tok).replace("{s}", tok) + "\n"
            case = {"source": src, "options": {}}
            try:
                fid = check_case(case)
            except Violation as v:
                stats.fail(v.detail, v.case)
                return stats
            if fid:
                stats.known[fid] += 1
            st_ = case.get("_status", "?")
            stats.case(key=src, nontrivial=st_ in ("ok", "refused"), classes=["token_sweep", "status_" + st_] + (["tolerated_listed_finding"] if fid else []), sample={"source": src})
    return stats


def plan(tier, seed, switches):
    if tier == "quick":
        return [("campaign", [dict(seed=seed * 100 + k, n=700, switches=switches) for k in range(4)] + [dict(seed=seed * 100 + 9, n=150, switches=switches, cli=True)]),
                ("enumerate_tokens", [dict(part=k, nparts=8, switches=switches) for k in range(8)])]
    return [("campaign", [dict(seed=seed * 1000 + k, n=10000, switches=switches) for k in range(11)] + [dict(seed=seed * 1000 + 99, n=3000, switches=switches, cli=True)]),
            ("fuzz", [dict(seed=seed * 10 + k, runs=150000, corpus=("examples" if k % 2 else "empty")) for k in range(4)]),
            ("enumerate_tokens", [dict(part=k, nparts=8, switches=switches) for k in range(8)])]
