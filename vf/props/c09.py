"""C09 - distinct source variables stay distinct; the same variable stays the same.

For every name (all 962 one- and two-character names exhaustively, longer
names by sampling and systematic families) and each of the four kinds, one
probe program uses the name in every syntactic position.  The emitted
identifier of each position is found through the source line label of the
probe statement (never through the tool's present naming scheme)."""
from hypothesis import strategies as st

from vf import core, tool
from vf.b09 import parse
from vf.cb import names
from vf.core import Stats, Violation

ID = "C09"
RULE = (
    "one probe program per (name, kind): the name occurs as DIM item, assignment target, operand, FOR/NEXT variable (numeric scalars), READ "
    "target, INPUT target, VARPTR operand and inside a subscript / function argument, each on its own labelled line, next to constructs "
    "that make the tool generate its own identifiers (temporaries, display/play/pid records, error number, joystick state). All 962 names "
    "of <= 2 characters x 4 kinds are enumerated (exhaustive), 3-4 character names are drawn by Hypothesis incl. families sharing a "
    "two-character prefix, ending in a digit or starting with a generated/BASIC09 word. Non-trivial: the name was accepted and occupies "
    ">= 3 positions; distinct by (name, kind). Names the tool refuses (keywords) are counted and skipped"
)
ASSUMPTIONS = [
    "Color BASIC identifies a variable by its first two characters, its type suffix and scalar/array kind",
    "BASIC09 identifiers are case-insensitive",
]

KINDS = ["num", "arr", "str", "sarr"]


def probe_source(name, kind):
    z, w = ("Z9", "W8") if name[:2] not in ("Z9", "W8") else ("Y7", "V6")
    n = name
    if kind == "num":
        lines = ["10 DIM %s" % n, "20 %s=101" % n, "30 %s=%s+202" % (z, n), "40 FOR %s=303 TO 304:NEXT %s" % (n, n), "50 READ %s" % n, "60 INPUT %s" % n,
                 "70 %s=VARPTR(%s)+606" % (z, n), "80 %s=%s(%s)+ABS(%s)" % (z, w, n, n), "86 ON %s GOSUB 100" % n, "87 HGET(%s,0)-(1,1),1" % n, "90 DATA 505"]
    elif kind == "arr":
        lines = ["10 DIM %s(7)" % n, "20 %s(1)=101" % n, "30 %s=%s(2)+202" % (z, n), "50 READ %s(3)" % n, "60 INPUT %s(4)" % n,
                 "70 %s=VARPTR(%s(5))+606" % (z, n), "80 %s=ABS(%s(6))+ABS(%s(0))" % (z, n, n), "86 ON %s(1) GOSUB 100" % n, "87 HPUT(0,0)-(%s(2),1),1,PSET" % n, "90 DATA 505"]
    elif kind == "str":
        lines = ["10 DIM %s$" % n, '20 %s$="P101"' % n, '30 %s$=%s$+"P202"' % (z, n), "50 READ %s$" % n, "60 INPUT %s$" % n,
                 "70 %s=VARPTR(%s$)+606" % (z, n), "80 %s=LEN(%s$)+ASC(%s$)" % (z, n, n), '85 %s$="Q505' % n, "86 ON LEN(%s$) GOSUB 100" % n, "90 DATA HELLO"]
    else:
        lines = ["10 DIM %s$(7)" % n, '20 %s$(1)="P101"' % n, '30 %s$=%s$(2)+"P202"' % (z, n), "50 READ %s$(3)" % n, "60 INPUT %s$(4)" % n,
                 "70 %s=VARPTR(%s$(5))+606" % (z, n), "80 %s=LEN(%s$(6))+ASC(%s$(0))" % (z, n, n), '85 LET %s$(1)="Q505' % n, "86 ON LEN(%s$(1)) GOSUB 100" % n,
                 "90 DATA HELLO"]
    lines.append("100 PRINT INT(%s);STR$(%s):%s=JOYSTK(0)+ERNO:HBUFF 1,2:ON ERR GOTO 100" % (z, z, z))
    return "\n".join(lines), z, w


def idents_in(e, acc):
    for sub in parse.walk_expr(e):
        if sub[0] in ("var", "idx"):
            acc.append(sub[1])


def groups_by_label(lines):
    out = {}
    cur = None
    for ln in lines:
        if ln.label is not None:
            cur = ln.label
            out[cur] = []
        if cur is not None:
            out[cur].extend(ln.stmts)
    return out


def extract(out, name, kind, z, w, case):
    """-> dict position -> emitted identifier of the probed name."""
    try:
        lines = parse.parse_program(out)
    except parse.B09SyntaxError as e:
        case["_unparsable"] = str(e)
        return None, set()
    g = groups_by_label(lines)
    pos = {}
    all_ids = []
    for ln in lines:
        for s in ln.stmts:
            for e in parse.stmt_exprs(s):
                idents_in(e, all_ids)
            if s.kind in ("dim", "param"):
                for gr in s.groups:
                    all_ids += [nm for nm, _ in gr["names"]]
            if s.kind == "for":
                all_ids.append(s.var)
    def only(xs, what):
        xs = list(dict.fromkeys(xs))
        if len(xs) != 1:
            raise Violation("cannot locate the probed name in position %s: candidates %r" % (what, xs), case)
        return xs[0]
    anchors = set()
    # L30 tells us the anchor's identifier (assignment target there)
    for lab in (30, 70, 80, 100):
        for s in g.get(lab, []):
            if s.kind == "assign":
                anchors.add(s.target[1].upper())
    for s in g.get(80, []):
        if s.kind == "assign":
            for sub in parse.walk_expr(s.exp):
                if sub[0] == "idx" and kind == "num":
                    anchors.add(sub[1].upper())  # W8 array
    for s in g.get(10, []):
        if s.kind == "dim":
            pos["dim"] = only([nm for gr in s.groups for nm, _ in gr["names"]], "DIM")
    for s in g.get(20, []):
        if s.kind == "assign":
            pos["target"] = s.target[1]
    for s in g.get(30, []):
        if s.kind == "assign":
            acc = []
            idents_in(s.exp, acc)
            pos["operand"] = only([a for a in acc if a.upper() not in anchors], "operand")
    for s in g.get(40, []):
        if s.kind == "for":
            pos["for"] = s.var
        if s.kind == "next":
            pos["next"] = s.var
    for s in g.get(50, []):
        if s.kind == "read":
            pos["read"] = only([t[1] for t in s.targets], "READ")
    for s in g.get(60, []):
        if s.kind == "input":
            pos["input"] = only([t[1] for t in s.targets], "INPUT")
    for s in g.get(70, []):
        if s.kind == "assign":
            for sub in parse.walk_expr(s.exp):
                if sub[0] == "call" and sub[1] == "ADDR":
                    acc = []
                    idents_in(sub[2][0], acc)
                    pos["varptr"] = acc[0]
    for s in g.get(80, []):
        if s.kind == "assign":
            acc = []
            idents_in(s.exp, acc)
            cands = [a for a in acc if a.upper() not in anchors]
            pos["argument"] = only(cands, "function argument / subscript")
    for s in g.get(85, []):
        if s.kind == "assign":
            pos["open_literal_target"] = s.target[1]
    # identifiers of line 100 (records, error number, joystick state ...) are the tool's own
    own = []
    for s in g.get(100, []):
        for e in parse.stmt_exprs(s):
            idents_in(e, own)
    own = {a.upper() for a in own}
    for lab, what in ((86, "on_selector"), (87, "hget_hput_corner")):
        acc = []
        for s in g.get(lab, []):
            for e in parse.stmt_exprs(s):
                idents_in(e, acc)
        cands = [a for a in acc if a.upper() not in anchors and a.upper() not in own]
        if cands:
            pos[what] = only(cands, what)
    case["_anchors"] = anchors
    return pos, {a.upper() for a in all_ids}


def check_case(case):
    name, kind = case["name"], case["kind"]
    src, z, w = probe_source(name, kind)
    case["_source"] = src
    status, out = tool.try_convert(src, initialize_vars=True)
    case["_status"] = status
    if status != "ok":
        return None
    pos, all_ids = extract(out, name, kind, z, w, case)
    if pos is None:
        return None  # output does not parse: C07's business (reserved words ...)
    want = {"num": 9, "arr": 7, "str": 7, "sarr": 7}[kind]
    if len(pos) < 5:
        raise Violation("probe positions not found in the output (%r)" % sorted(pos), case)
    ids = {v.upper() for v in pos.values()}
    if len(ids) != 1:
        raise Violation("variable %s (%s) is emitted under different identifiers in different positions: %r" % (name, kind, pos), case)
    ident = ids.pop()
    # identifiers of the output that do not come from the probe or the anchors are generated by the tool
    pz, _ = None, None
    generated = {a for a in all_ids if a != ident and a not in case["_anchors"]}
    case["_ident"] = ident
    case["_positions"] = len(pos)
    case["_generated"] = sorted(generated)
    return None


def key_of(name, kind):
    return (name[:2], kind)


def exhaustive(part, nparts, switches=frozenset()):
    stats = Stats()
    allnames = names.all_short_names()
    for i, n in enumerate(allnames):
        if i % nparts != part:
            continue
        for kind in KINDS:
            case = {"name": n, "kind": kind}
            try:
                check_case(case)
            except Violation as v:
                stats.fail(v.detail, {"name": n, "kind": kind})
                return stats  # one failure per shard is enough; the rest of the enumeration is skipped
            st_ = case["_status"]
            if st_ == "ok" and "_ident" in case:
                stats.payload.append((n, kind, case["_ident"], case["_generated"]))
            if n in names.B09_RESERVED_SHORT and "no_b09_reserved_names" in switches:
                stats.excluded["no_b09_reserved_names"] += 1
            stats.case(key=[n, kind], nontrivial=st_ == "ok" and case.get("_positions", 0) >= 3,
                       classes=["status_" + st_, "kind_" + kind] + (["unparsable_output"] if "_unparsable" in case else []),
                       sample={"name": n, "kind": kind, "identifier": case.get("_ident")})
    stats.exhaustive = True
    return stats


PREFIX_WORDS = ["TM", "PI", "ER", "AR", "DI", "PL", "JO", "DO", "SQ", "ON", "IF", "TO", "OR"]


@st.composite
def long_names(draw):
    fam = draw(st.sampled_from(["random", "shared_prefix", "digit_end", "word_prefix"]))
    L, D = names.LETTERS, names.DIGITS
    if fam == "word_prefix":
        base = draw(st.sampled_from(["TMP", "TMP1", "PID", "ERNO", "ARR", "ARRA", "DISP", "PLAY", "JOY0", "ERRN", "TM1", "PIX"]))
    else:
        base = draw(st.sampled_from(list(L))) + draw(st.sampled_from(list(L + D)))
        k = draw(st.integers(1, 2))
        for _ in range(k):
            base += draw(st.sampled_from(list(D if fam == "digit_end" else L + D)))
    return {"name": base, "kind": draw(st.sampled_from(KINDS)), "family": fam}


def campaign(seed, n, switches=frozenset()):
    stats = Stats()

    def body(case):
        case = dict(case)
        if names.contains_keyword(case["name"]):
            stats.case(key=[case["name"], case["kind"]], nontrivial=False, classes=["name_contains_keyword"], sample=case)
            return
        if case["name"][:2] in names.B09_RESERVED_SHORT and "no_b09_reserved_names" in switches:
            stats.excluded["no_b09_reserved_names"] += 1
            return
        check_case(case)
        short = {"name": case["name"][:2], "kind": case["kind"]}
        if case["_status"] == "ok" and "_ident" in case:
            check_case(short)
            if short.get("_ident") != case["_ident"]:
                raise Violation("%s and %s (%s) are the same Color BASIC variable but are emitted as %r and %r"
                                % (case["name"], short["name"], case["kind"], case["_ident"], short.get("_ident")), {"name": case["name"], "kind": case["kind"]})
            stats.payload.append((case["name"], case["kind"], case["_ident"], case["_generated"]))
        stats.case(key=[case["name"], case["kind"]], nontrivial=case["_status"] == "ok" and case.get("_positions", 0) >= 3,
                   classes=["status_" + case["_status"], "family_" + case.get("family", "?")],
                   sample={"name": case["name"], "kind": case["kind"], "identifier": case.get("_ident")})

    core.run_hypothesis(body, long_names(), seed=seed, max_examples=n, stats=stats)
    return stats


def finalize(stats):
    """Global checks over all (name, kind) -> identifier facts of the run."""
    by_ident = {}
    for name, kind, ident, generated in stats.payload:
        by_ident.setdefault(ident, set()).add(key_of(name, kind))
    for ident, keys in sorted(by_ident.items()):
        if len(keys) > 1:
            ks = sorted(keys)
            stats.fail("distinct Color BASIC variables %r share the BASIC09 identifier %s" % (ks[:4], ident), {"name": ks[0][0], "kind": ks[0][1], "other": list(ks[1])})
            break
    gen_all = {}
    for name, kind, ident, generated in stats.payload:
        for gname in generated:
            gen_all.setdefault(gname, (name, kind))
    for name, kind, ident, generated in stats.payload:
        if ident in gen_all and key_of(*gen_all[ident]) != key_of(name, kind):
            other = gen_all[ident]
            # ident of this variable appears as a non-probe identifier in another probe's output: generated-name collision
            stats.fail("user variable %s (%s) is emitted as %s, an identifier the tool itself generates (seen in the output for %s)" % (name, kind, ident, other[0]),
                       {"name": name, "kind": kind})
            break


def plan(tier, seed, switches):
    if tier == "quick":
        return [("exhaustive", [dict(part=k, nparts=8, switches=switches) for k in range(8)]),
                ("campaign", [dict(seed=seed * 100 + k, n=250, switches=switches) for k in range(4)])]
    return [("exhaustive", [dict(part=k, nparts=8, switches=switches) for k in range(8)]),
            ("campaign", [dict(seed=seed * 1000 + k, n=2500, switches=switches) for k in range(16)])]


def evidence_extra(stats):
    return {"exhaustive_part": "all 962 names of <= 2 characters x 4 kinds", "identifier_facts": len(stats.payload)}
