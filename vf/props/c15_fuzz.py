#!/venv/bin/python
"""Coverage-guided byte fuzzing of convert() with atheris (C15, thorough tier extra).

Usage: c15_fuzz.py <corpus_dir> <findings_json> -runs=N -seed=S [libFuzzer args]
The oracle is inside the target: text or a documented refusal; internal
failures are bucketed by (exception type, innermost function in coco/, message
part); unlisted buckets are written to <findings_json> and abort the run."""
import json
import os
import sys

HERE = os.path.dirname(os.path.dirname(os.path.dirname(os.path.abspath(__file__))))
sys.path[:0] = [os.environ.get("VERIF_REPO", "/repo"), HERE, os.path.join(HERE, ".deps")]

import atheris  # noqa: E402

with atheris.instrument_imports(include=["coco"]):
    from coco.b09 import compiler  # noqa: F401,E402

from vf import tool  # noqa: E402
from vf.props import c15  # noqa: E402

FOUND = {}
COUNT = {"n": 0, "ok": 0, "refused": 0, "internal_listed": 0}
OUT = None
OPTSETS = [{}, {"initialize_vars": True, "filter_unused_linenum": True}, {"output_dependencies": True, "procname": "p"}, {"add_standard_prefix": False, "default_str_storage": 80}]


def dump():
    with open(OUT, "w") as f:
        json.dump({"found": FOUND, "count": COUNT}, f)


def one(data):
    COUNT["n"] += 1
    if COUNT["n"] % 1000 == 0:
        dump()  # atheris leaves through os._exit: keep the counters on disk
    if len(data) < 1:
        return
    opts = OPTSETS[data[0] % len(OPTSETS)]
    src = data[1:].decode("latin1")
    try:
        compiler.convert(src, **opts)
        COUNT["ok"] += 1
        return
    except RecursionError:
        bucket = ("RecursionError", "*", "")
    except Exception as e:  # noqa
        if not tool.is_internal_error(e):
            COUNT["refused"] += 1
            return
        bucket = c15.bucket_of(e)
    if c15.listed(bucket):
        COUNT["internal_listed"] += 1
        return
    key = bucket[0] + "@" + bucket[1]
    if key not in FOUND:
        FOUND[key] = {"bucket": list(bucket), "source": src, "options": opts}
        dump()
        raise RuntimeError("unlisted internal failure %r" % (bucket,))


def main():
    global OUT
    corpus, OUT = sys.argv[1], sys.argv[2]
    args = [sys.argv[0], corpus] + sys.argv[3:]
    atheris.Setup(args, one)
    try:
        atheris.Fuzz()
    finally:
        dump()


if __name__ == "__main__":
    main()
