"""C19 - damaged image files are reported, never silently decoded to a broken image.

Fault injection on valid files (every prefix of small synthetic files,
stratified prefixes of large ones, single-byte corruption of header fields and
compression control bytes, appended garbage, random byte strings).  Oracle: the
decoder terminates and either reports failure or writes a complete image as
defined by C18's reader."""
import json
import os

from hypothesis import strategies as st

from vf import core, tool
from vf.core import Stats, Violation
from vf.img import model, run, wellformed

ID = "C19"
RULE = (
    "valid base files per format (small synthetic ones where the format allows, run-length-compressed solid or striped "
    "images for the fixed-size formats, the repository's fixtures in the thorough tier) x faults drawn by Hypothesis: "
    "prefix at any position (all positions of the small files are also enumerated exhaustively), one byte replaced at "
    "any position with emphasis on header fields and compression control bytes, appended garbage, and random byte "
    "strings with and without a valid header. Non-trivial: the fault is a cut that is not at the end of the file, or a "
    "replaced byte that differs from the original; distinct by sha1 of (base spec, fault)"
)
RULE += ' One fault case in four sends the image to standard output.'
ASSUMPTIONS = [
    "'reports failure' = exception, SystemExit with message/non-zero code, or MAX's documented False (output removed)",
    "'never hangs' is judged as: finishes within 30 s (normal cost <= 0.6 s), re-run once with 120 s before judging",
    "findings are recognised from the input (vf.img.wellformed flags computed from the format grammar), never from the symptom alone",
]

# finding id -> predicate over (fmt, wellformed flags)
KNOWN_PREDICATES = {
    "C19-max-short-body": lambda fmt, fl: fmt == "max" and "max_body_short" in fl,
    "C19-pix-size-not-square": lambda fmt, fl: fmt == "pix" and "pix_size_not_2k2" in fl,
    "C19-vef-pixel-count-unchecked": lambda fmt, fl: fmt == "vef" and "vef_pixel_count_mismatch" in fl,
    "C19-vef-palette-byte-ge-64": lambda fmt, fl: fmt == "vef" and "vef_palette_ge_64" in fl,
    "C19-mge-rle-count-unchecked": lambda fmt, fl: fmt == "mge" and ("mge_rle_terminator_before_image_is_full" in fl or "mge_rle_pairs_after_image_is_full" in fl),
    "C19-rat-run-overshoot": lambda fmt, fl: fmt == "rat" and "rat_run_overshoot" in fl,
    "C19-cm3-line-count-unchecked": lambda fmt, fl: fmt == "cm3" and "cm3_line_count_not_192" in fl,
}


def open_findings():
    path = os.path.join(core.VERIF_ROOT, "known_findings.json")
    try:
        with open(path) as f:
            d = json.load(f)
    except OSError:
        return set()
    return {x["id"] for x in d.get("findings", []) if "C19" in x.get("property", []) and x.get("status") == "open"}


BASES = {
    "hrs": [{"fmt": "hrs", "seed": 1, "pattern": "random", "w": 8, "h": 3},
            {"fmt": "hrs", "seed": 2, "pattern": "ramp", "w": 16, "h": 4, "skip": 5},
            {"fmt": "hrs", "seed": 3, "pattern": "random"}],
    "pix": [{"fmt": "pix", "seed": 1, "pattern": "random", "side": 8},
            {"fmt": "pix", "seed": 2, "pattern": "ramp", "side": 12}],
    "max": [{"fmt": "max", "seed": 1, "pattern": "random", "cols": 16, "rows": 4},
            {"fmt": "max", "seed": 2, "pattern": "random", "rows": 2, "mode": "br2"},
            {"fmt": "max", "seed": 3, "pattern": "random", "newsroom": True, "cols": 24, "rows": 3},
            {"fmt": "max", "seed": 4, "pattern": "random", "cols": 32, "rows_opt": 3, "skip": 4, "mode": "rb"}],
    "mge": [{"fmt": "mge", "seed": 1, "pattern": "constant", "compressed": True, "policy": "max", "composite": False},
            {"fmt": "mge", "seed": 2, "pattern": "runs", "compressed": True, "policy": "mixed", "composite": True},
            {"fmt": "mge", "seed": 3, "pattern": "random", "compressed": False}],
    "rat": [{"fmt": "rat", "seed": 1, "pattern": "constant", "policy": "max", "low_nibble_limit": 8},
            {"fmt": "rat", "seed": 2, "pattern": "runs", "policy": "mixed", "low_nibble_limit": 8}],
    "cm3": [{"fmt": "cm3", "seed": 1, "pattern": "constant", "coded": True, "p_raw": 0.0, "no_patterns": True},
            {"fmt": "cm3", "seed": 2, "pattern": "rows_repeat", "coded": True, "two_pages": True},
            {"fmt": "cm3", "seed": 3, "pattern": "random", "coded": False, "no_patterns": True}],
    "vef": [{"fmt": "vef", "seed": 1, "pattern": "constant", "squashed": True, "policy": "max", "type": 3},
            {"fmt": "vef", "seed": 2, "pattern": "runs", "squashed": True, "type": 0},
            {"fmt": "vef", "seed": 3, "pattern": "random", "squashed": False, "type": 3},
            {"fmt": "vef", "seed": 4, "pattern": "runs", "squashed": True, "type": 1}],
}

FIXTURES = {
    "hrs": ("monalisa.hrs", []), "pix": ("sue.pix", []), "max": ("eye4.max", []), "mge": ("dragon1.mge", []),
    "cm3": ("clip1.cm3", []), "rat": ("watrfall.rat", []), "vef": ("trekies.vef", []),
}

_cache = {}


def base_bytes(base):
    key = core.jdump(base)
    if key not in _cache:
        if "fixture" in base:
            name, argv = FIXTURES[base["fmt"]]
            with open(os.path.join(tool.REPO, "tests", "coco_tests", "fixtures", name), "rb") as f:
                _cache[key] = (f.read(), list(argv))
        else:
            b = model.build(base)
            _cache[key] = (b.data, b.argv)
    return _cache[key]


def materialise(case):
    if "raw" in case:
        return bytes(case["raw"]), list(case.get("argv", [])) + list(case.get("extra_argv", []))
    data, argv = base_bytes(case["base"])
    f = case["fault"]
    k = f["kind"]
    if k == "prefix":
        data = data[: f["pos"]]
    elif k == "corrupt":
        p = f["pos"] % max(1, len(data))
        data = data[:p] + bytes([f["val"]]) + data[p + 1 :]
    elif k == "append":
        data = data + bytes(f["tail"])
    elif k == "none":
        pass
    return data, list(argv) + list(case.get("extra_argv", []))


def check_case(case):
    fmt = case["fmt"]
    data, argv = materialise(case)
    so = case.get("stdout", False)
    res = run.run_decoder(fmt, data, argv, limit=30, stdout=so)
    if res.status == "hang":
        res = run.run_decoder(fmt, data, argv, limit=120, stdout=so)
        if res.status == "hang":
            raise Violation("decoder does not terminate on a %d-byte input (limit 120 s)" % len(data), case)
    if res.status == "fail":
        return None
    if res.out is None:
        raise Violation("decoder reported success but there is no output", case)
    parsed = run.read_output(fmt, res.out)
    if parsed.get("complete"):
        return None
    flags = wellformed.classify(fmt, data, argv)
    for fid in sorted(open_findings()):
        pred = KNOWN_PREDICATES.get(fid)
        if pred and pred(fmt, flags):
            return fid
    raise Violation(
        "decoder reported success but the output is not a complete image: %s (input flags: %s)" % (parsed.get("problem"), sorted(flags)),
        case,
    )


def important_positions(fmt, data):
    """Header fields and compression control bytes get extra weight."""
    n = len(data)
    pos = list(range(min(n, 64)))
    if fmt in ("mge", "rat", "vef", "cm3"):
        pos += list(range(0, n, max(1, n // 97)))
    pos += [n - 1, n - 2, n - 3]
    return sorted({p for p in pos if 0 <= p < n})


@st.composite
def fault_cases(draw, fmts, use_fixtures=False):
    case = draw(_fault_cases(fmts, use_fixtures))
    if case["fmt"] == "max" and draw(st.integers(0, 3)) == 0:
        case["extra_argv"] = ["-i"]  # header errors are to be ignored
    if case["fmt"] in ("hrs", "max", "mge", "cm3", "rat", "pix") and draw(st.integers(0, 3)) == 0:
        # the image goes to standard output (output argument left out, or '-'): failure must still be reported, success still means a complete image
        case["stdout"] = draw(st.sampled_from([True, "dash"]))
    return case


@st.composite
def _fault_cases(draw, fmts, use_fixtures=False):
    fmt = draw(st.sampled_from(fmts))
    kind = draw(st.sampled_from(["prefix", "prefix", "corrupt", "corrupt", "append", "random", "header_random"]))
    if kind == "random":
        raw = draw(st.binary(min_size=0, max_size=120))
        return {"fmt": fmt, "raw": raw, "argv": []}
    bases = list(BASES[fmt])
    if use_fixtures:
        bases.append({"fmt": fmt, "fixture": True})
    base = draw(st.sampled_from(bases))
    data, argv = base_bytes(base)
    n = len(data)
    if kind == "header_random":
        keep = draw(st.integers(0, min(n, 60)))
        raw = data[:keep] + draw(st.binary(min_size=0, max_size=200))
        return {"fmt": fmt, "raw": raw, "argv": argv}
    if kind == "prefix":
        p = draw(st.one_of(st.integers(0, n), st.integers(0, min(n, 80)), st.integers(max(0, n - 40), n)))
        return {"fmt": fmt, "base": base, "fault": {"kind": "prefix", "pos": p}}
    if kind == "corrupt":
        imp = important_positions(fmt, data)
        p = draw(st.one_of(st.sampled_from(imp), st.integers(0, max(0, n - 1))))
        v = draw(st.one_of(st.integers(0, 255), st.sampled_from([0, 1, 63, 64, 127, 128, 129, 191, 192, 193, 254, 255])))
        return {"fmt": fmt, "base": base, "fault": {"kind": "corrupt", "pos": p, "val": v}}
    tail = draw(st.binary(min_size=1, max_size=40))
    return {"fmt": fmt, "base": base, "fault": {"kind": "append", "tail": tail}}


def describe(case):
    d = {"fmt": case["fmt"]}
    if "raw" in case:
        d["raw_len"] = len(case["raw"])
        d["raw_head"] = bytes(case["raw"][:24]).hex()
    else:
        d["base"] = {k: v for k, v in case["base"].items() if k not in ("palette",)}
        d["fault"] = {k: (v if not isinstance(v, (bytes, bytearray)) else bytes(v).hex()) for k, v in case["fault"].items()}
    return d


def is_nontrivial(case):
    if "raw" in case:
        return len(case["raw"]) > 0
    data, _ = base_bytes(case["base"])
    f = case["fault"]
    if f["kind"] == "prefix":
        return f["pos"] < len(data)
    if f["kind"] == "corrupt":
        p = f["pos"] % max(1, len(data))
        return data[p] != f["val"]
    return True


def _run_one(stats, case):
    r = check_case(case)
    cls = ["fmt_" + case["fmt"], "fault_" + ("random" if "raw" in case else case["fault"]["kind"])]
    if case.get("extra_argv"):
        cls.append("max_ignore_header_errors")
    if r:
        stats.known[r] += 1
        cls.append("tolerated_listed_finding")
    stats.case(key=case, nontrivial=is_nontrivial(case), classes=cls, sample=describe(case))


def campaign(seed, n, fmts, use_fixtures=False, switches=frozenset()):
    stats = Stats()

    def body(case):
        _run_one(stats, case)

    core.run_hypothesis(body, fault_cases(fmts, use_fixtures), seed=seed, max_examples=n, stats=stats)
    return stats


def enumerate_prefixes(fmt, base_index, lo=0, hi=None, step=1, switches=frozenset()):
    """Exhaustive: every prefix length in [lo, hi) of one base file."""
    stats = Stats()
    base = BASES[fmt][base_index]
    data, _ = base_bytes(base)
    hi = len(data) + 1 if hi is None else min(hi, len(data) + 1)
    for p in range(lo, hi, step):
        case = {"fmt": fmt, "base": base, "fault": {"kind": "prefix", "pos": p}}
        try:
            _run_one(stats, case)
        except Violation as v:
            stats.fail(v.detail, v.case)
            break
    stats.classes["enumerated_prefix_%s_%d" % (fmt, base_index)] += 0
    if step == 1:
        stats.exhaustive = True
    return stats


def enumerate_corruptions(fmt, base_index, part, nparts, stride=1, switches=frozenset()):
    """Systematic single-byte corruption: every (strided) position of one small base file gets original+1, original-1,
    0 and 255 - so every count / length / control byte is pushed just over and just under its value."""
    stats = Stats()
    base = BASES[fmt][base_index]
    data, _ = base_bytes(base)
    n = len(data)
    positions = [p for p in range(n) if p < 64 or p >= n - 30 or p % stride == 0]
    k = 0
    for p in positions:
        for val in sorted({(data[p] + 1) & 255, (data[p] - 1) & 255, 0, 255} - {data[p]}):
            k += 1
            if k % nparts != part:
                continue
            case = {"fmt": fmt, "base": base, "fault": {"kind": "corrupt", "pos": p, "val": val}}
            try:
                _run_one(stats, case)
            except Violation as v:
                stats.fail(v.detail, v.case)
                return stats
    stats.classes["systematic_corruption_%s_%d" % (fmt, base_index)] += 0
    return stats


def plan(tier, seed, switches):
    allf = ["hrs", "pix", "max", "mge", "rat", "cm3", "vef"]
    if tier == "quick":
        tasks = [("campaign", [dict(seed=seed * 100 + 1, n=700, fmts=["hrs", "pix", "max"])]
                  + [dict(seed=seed * 100 + 2 + i, n=110, fmts=[f]) for i, f in enumerate(["mge", "rat", "cm3", "vef"])]),
                 ("enumerate_prefixes", [dict(fmt="hrs", base_index=0), dict(fmt="hrs", base_index=1), dict(fmt="pix", base_index=0),
                                         dict(fmt="pix", base_index=1), dict(fmt="max", base_index=0), dict(fmt="max", base_index=1),
                                         dict(fmt="max", base_index=2), dict(fmt="max", base_index=3),
                                         dict(fmt="mge", base_index=0, lo=0, hi=120), dict(fmt="rat", base_index=0, lo=0, hi=120),
                                         dict(fmt="vef", base_index=0, lo=0, hi=120), dict(fmt="cm3", base_index=0, lo=0, hi=120)]),
                 ("enumerate_corruptions", [dict(fmt=f, base_index=0, part=k, nparts=4, stride=st_) for f, st_ in (("mge", 7), ("rat", 9), ("vef", 31)) for k in range(4)])]
        return tasks
    tasks = [("campaign", [dict(seed=seed * 1000 + k, n=12000, fmts=["hrs", "pix", "max"], use_fixtures=False) for k in range(3)]
              + [dict(seed=seed * 1000 + 10 + k, n=1700, fmts=[["mge", "rat", "cm3", "vef"][k % 4]], use_fixtures=(k >= 8)) for k in range(13)]),
             ("enumerate_prefixes", [dict(fmt=f, base_index=i) for f in ("hrs", "pix", "max") for i in range(len(BASES[f])) if not (f == "hrs" and i == 2)]
              + [dict(fmt="mge", base_index=0), dict(fmt="rat", base_index=0), dict(fmt="vef", base_index=0),
                 dict(fmt="cm3", base_index=0, step=7), dict(fmt="mge", base_index=1, step=5), dict(fmt="rat", base_index=1, step=5),
                 dict(fmt="vef", base_index=1, step=11), dict(fmt="hrs", base_index=2, step=257), dict(fmt="mge", base_index=2, step=263),
                 dict(fmt="vef", base_index=2, step=131), dict(fmt="cm3", base_index=2, step=251)]),
             ("enumerate_corruptions", [dict(fmt=f, base_index=bi, part=k, nparts=8, stride=st_) for f, bi, st_ in
                                        (("mge", 0, 1), ("mge", 1, 3), ("rat", 0, 1), ("rat", 1, 3), ("vef", 0, 2), ("vef", 1, 7), ("cm3", 0, 11), ("hrs", 0, 1), ("max", 0, 1), ("max", 2, 1))
                                        for k in range(8)])]
    return tasks


def evidence_extra(stats):
    return {"exhaustive_part": "every prefix of the small synthetic HRS / PIX / MAX files (and the first 120 bytes of the compressed MGE / RAT / VEF / CM3 files; all of them in the thorough tier) is enumerated"}
