"""C03 - arrays, DATA/READ, PRINT, INPUT and string functions keep their meaning.

Differential execution of programs mixing DIM (1-3 dimensions, decimal / hex
bounds), implicit arrays, full fills and read-backs, DATA lines with quoted /
unquoted / numeric / hex / empty items, READ lists, RESTORE, PRINT lists in
every arrangement of separators, PRINT@, TAB, INPUT / LINE INPUT from a
script, and the ten string functions, under default_str_storage 32 / 80 and
both values of initialize_vars.  With initialize_vars the BASIC09 run must not
read any variable or element that was never written."""
from fractions import Fraction

from hypothesis import strategies as st

from vf import core, diff, sem
from vf.core import Stats, Violation
from vf.diff import Trivial
from vf.gen import cbgen, full

ID = "C03"
RULE = (
    "programs built by Hypothesis from sections: DIM list (arrays of 1-3 dimensions with decimal or hex bounds, scalars), full fill of small arrays with "
    "pairwise distinct values and read-back of every element, corner accesses (0 and bound / 10) of larger and implicit arrays, DATA lines (quoted, "
    "unquoted with inner and trailing blanks, numeric, hex, empty items) with typed READ lists incl. array and string targets and RESTORE, PRINT lists "
    "with ';' ',' juxtaposition, leading / doubled / trailing separators, PRINT@ and TAB, INPUT / LINE INPUT with and without prompt and 1-3 targets fed "
    "from a script, string-function assignments; x default_str_storage 32/80 x initialize_vars. Non-trivial: the program exercises >= 2 of {DIM'd array, "
    "implicit array, READ across two DATA lines, RESTORE, empty DATA item, PRINT with >= 2 separator kinds, INPUT with prompt, string function of a string "
    "function}; distinct by sha1 of (AST, options)"
)
RULE += ' Also: open (unterminated) string literals as the last assignment of a line, letter+digit variable names, READ statements with 10-14 targets against DATA lines of up to 60 items, unquoted DATA items with apostrophes, exponent-range numerals, one case in three in a drawn layout. A refusal of a generated program counts as a violation.'
ASSUMPTIONS = [
    "CB-6..CB-9 and B09-5..B09-8 of DESIGN.md section 3; number formatting abstract; strings longer than the requested storage on the CB side are the README's documented 'common issue' and are skipped",
    "READ targets are typed like the DATA item they receive",
]


def N(v):
    return ["num", str(v), v]


@st.composite
def cases(draw, switches):
    feats = set()
    excluded = {}
    d = draw
    storage = d(st.sampled_from([32, 32, 80]))
    prog_lines = []  # list of statement lists
    init = []
    num_vars = ["A", "B", "C", "X", "Y", "K2"]  # one-letter, letter+digit and (strings) two-letter names
    str_vars = ["S", "T", "U", "NM", "N1"]
    for v, x in zip(num_vars, d(st.permutations([2, 3, 5, 1.5, -4, 9]))):
        init.append(["let", ["var", v], cbgen.lit_expr(x), False])
    maxlen = 20
    for v, x in zip(str_vars, d(st.permutations(["AB", "HELLO", "", "B A", "Q"]))):
        init.append(["let", ["svar", v], ["str", x], False])
    # ---------------------------------------------------------------- arrays
    arrays = []  # (name, kind, bounds, dimmed)
    dims = []
    narr = d(st.integers(0, 3))
    # array names overlap with scalar names on purpose: A / A(), S$ / S$() are four different variables
    for name in d(st.lists(st.sampled_from(["P", "Q", "R", "G", "H", "A", "B", "S", "T"]), min_size=narr, max_size=narr, unique=True)):
        kind = d(st.sampled_from(["arr", "arr", "sarr"]))
        if name in ("A", "B", "S", "T"):
            feats.add("array_named_like_a_scalar")
        dimmed = d(st.booleans())
        if dimmed:
            nd = d(st.integers(1, 3))
            bounds = [d(st.integers(0, 3 if nd > 1 else 12)) for _ in range(nd)]
            dims.append([name, kind, [(["h", "%X" % b] if d(st.integers(0, 3)) == 0 else ["d", b]) for b in bounds]])
            feats.add("dimmed_array")
            if any(x[2] and x[2][0][0] == "h" for x in dims[-1:]):
                feats.add("hex_bound")
        else:
            nd = d(st.sampled_from([1, 1, 2]))
            if nd > 1 and "implicit_arrays_1d" in switches:
                nd = 1
                excluded["implicit_arrays_1d"] = excluded.get("implicit_arrays_1d", 0) + 1
            bounds = [10] * nd
            feats.add("implicit_array")
            if kind == "sarr" and storage != 32 and "implicit_string_arrays_default_storage_only" in switches:
                storage = 32
                excluded["implicit_string_arrays_default_storage_only"] = excluded.get("implicit_string_arrays_default_storage_only", 0) + 1
        arrays.append((name, kind, bounds, dimmed))
    if dims:
        if d(st.booleans()):
            dims.append(["DS", "svar", []])
        if d(st.booleans()):
            dims.append(["DN", "var", []])
        prog_lines.append([["dim", dims]])
    if maxlen > storage:
        maxlen = storage

    def elem_value(kind, subs):
        k = sum(s * m for s, m in zip(subs, (1, 13, 169)))
        if kind == "sarr":
            return ["str", "E%d" % k]
        return N(k * 7 + 3)

    loopvars = ["I", "J", "K"]
    for name, kind, bounds, dimmed in arrays:
        tag = "sarr" if kind == "sarr" else "arr"
        total = 1
        for b in bounds:
            total *= b + 1
        if total <= 64 and d(st.booleans()):
            # full fill with pairwise distinct values, then read back every element
            feats.add("full_fill")
            subs = [["var", v] for v in loopvars[: len(bounds)]]
            if kind == "sarr":
                val = ["scat", ["str", "E"], ["fn", "CHR$", [["bin", "+", N(65), ["bin", "+", subs[0], (["bin", "*", subs[1], N(4)] if len(subs) > 1 else N(0))]]]]]
                if len(subs) > 2:
                    val = ["scat", val, ["fn", "CHR$", [["bin", "+", N(97), subs[2]]]]]
            else:
                val = N(3)
                for q, sv in enumerate(subs):
                    val = ["bin", "+", val, ["bin", "*", sv, N([7, 101, 1009][q])]]
            fill = [["for", v, N(0), N(b), None] for v, b in zip(loopvars, bounds)]
            fill.append(["let", [tag, name, subs], val, False])
            fill += [["next", [v]] for v in reversed(loopvars[: len(bounds)])]
            prog_lines.append(fill)
            back = [["for", v, N(0), N(b), None] for v, b in zip(loopvars, bounds)]
            back.append(["print", [["e", [tag, name, subs]], ["s", ";"]]])
            back += [["next", []] for _ in bounds]
            prog_lines.append(back)
        else:
            corners = [[0] * len(bounds), list(bounds)]
            if len(bounds) > 1:
                corners.append([bounds[0]] + [0] * (len(bounds) - 1))
            st_ = []
            for c in corners:
                st_.append(["let", [tag, name, [N(x) for x in c]], elem_value(kind, c), False])
            if kind == "sarr" and d(st.integers(0, 2)) == 0:
                # the last assignment of the line leaves its string literal open (legal at the end of a line); blanks before the line end are content
                st_[-1] = ["let", st_[-1][1], ["str", st_[-1][2][1] + d(st.sampled_from(["", " ", "X "]))], d(st.booleans()), "open"]
                feats.add("open_string_literal_to_array_element")
            prog_lines.append(st_)
            # read corners plus one never-written element (initially 0 / "")
            mid = [min(1, b) for b in bounds]
            pr = []
            for c in corners + [mid]:
                pr += [["e", [tag, name, [N(x) for x in c]]], ["s", ";"]]
            prog_lines.append([["print", pr]])
            feats.add("corner_access")
    # ---------------------------------------------------------------- DATA / READ
    data_lines = []
    if d(st.booleans()):
        nd_lines = d(st.integers(1, 3))
        items_all = []
        wide = d(st.integers(0, 5)) == 0  # scale: one READ with ten or more targets (string temporaries beyond tmp_9$ when an item is empty)
        if wide:
            feats.add("read_with_ten_or_more_targets")
        for _ in range(nd_lines):
            items = []
            for _ in range(d(st.integers(1, 4)) if not wide else d(st.sampled_from([10, 12, 14, 14, 44, 60]))):  # up to 60 items: 200-300 characters of DATA text
                r = d(st.integers(0, 11))
                if r < 4:
                    sp, v = d(st.sampled_from(cbgen.NUM_SPELLINGS))
                    if d(st.integers(0, 4)) == 0:
                        sp, v = "-" + sp, -v
                    items.append(["n", sp, v])
                elif r < 6:
                    items.append(["q", d(st.sampled_from(["", "A", "A B", " X ", "HI, YOU", "a:b"]))])
                elif r < 8:
                    items.append(["u", d(st.sampled_from(["ABC", "A B", "X  ", "RED", "Z9 ", "DON'T", "'Q"]))])
                elif r < 9:
                    items.append(["h", d(st.sampled_from(["F", "1F", "FF", "7FFF", "8000", "FFFF"]))])
                else:
                    items.append(["e"])
                    feats.add("empty_data_item")
            data_lines.append(items)
            items_all += items
        if any(i[0] == "e" for i in items_all) and any(i[0] == "h" for i in items_all) and "no_hex_data_with_empty_item" in switches:
            for items in data_lines:
                for q, i in enumerate(items):
                    if i[0] == "h":
                        items[q] = ["n", "15", 15]
            items_all = [i for items in data_lines for i in items]
        if len(data_lines) >= 2:
            feats.add("two_data_lines")
        # typed READ targets
        pos = 0
        reads = []
        numeric_targets = [["var", "A"], ["var", "B"], ["var", "X"]] + [["arr", n, [N(0)] * len(b)] for n, k, b, dm in arrays if k == "arr"]
        string_targets = [["svar", "S"], ["svar", "T"], ["svar", "NM"]] + [["sarr", n, [N(0)] * len(b)] for n, k, b, dm in arrays if k == "sarr"]
        if wide:
            numeric_targets += [["var", "C"], ["var", "Y"], ["var", "K2"]]
        while pos < len(items_all):
            k = d(st.integers(1, 3)) if not wide else d(st.integers(10, 14))
            tg = []
            for it in items_all[pos:pos + k]:
                if it[0] in ("n", "h"):
                    tg.append(d(st.sampled_from(numeric_targets)))
                elif it[0] in ("q", "u"):
                    tg.append(d(st.sampled_from(string_targets)))
                else:
                    tg.append(d(st.sampled_from(numeric_targets + string_targets)))
            pos += k
            reads.append([["read", tg], ["print", sum([[["e", t], ["s", ";"]] for t in tg], [])[:-1]]])
            if d(st.integers(0, 5)) == 0 and pos < len(items_all):
                reads.append([["restore"]])
                feats.add("restore")
                pos = 0
                if len(reads) > 6:
                    break
        # a READ list in which a scalar is both the subscript of an earlier target and a later target: READ V(I9),I9 stores into V(old I9)
        cand = [n for n, k, b, dm in arrays if k == "arr" and len(b) == 1 and b[0] >= 2]
        if cand and pos >= len(items_all) and d(st.integers(0, 2)) == 0:
            nm_ = d(st.sampled_from(cand))
            extra_items = [["n", "55", 55], ["n", "1", 1]] + ([["e"]] if d(st.booleans()) else [])
            data_lines.append(extra_items)
            tg_ = [["arr", nm_, [["var", "I9"]]], ["var", "I9"]] + ([["var", "B"]] if len(extra_items) == 3 else [])
            reads.append([["read", tg_], ["print", [["e", ["arr", nm_, [N(2)]]], ["s", ";"], ["e", ["arr", nm_, [N(1)]]], ["s", ";"], ["e", ["var", "I9"]]]]])
            feats.add("read_target_subscript_is_a_later_target")
        prog_lines += reads
    # ---------------------------------------------------------------- PRINT
    def pitem():
        r = d(st.integers(0, 7))
        if r < 2:
            return ["var", d(st.sampled_from(num_vars))]
        if r < 4:
            return ["svar", d(st.sampled_from(str_vars))]
        if r < 5:
            return ["str", d(st.sampled_from(["", "X", "A B", "L:"]))]
        if r < 6:
            return ["bin", "+", ["var", d(st.sampled_from(num_vars))], N(1)]
        if r < 7:
            return ["fn", "TAB", [N(d(st.integers(0, 20)))]]
        return ["scat", ["svar", d(st.sampled_from(str_vars))], ["str", "!"]]

    for _ in range(d(st.integers(0, 3))):
        items = []
        seps = set()
        for k in range(d(st.integers(0, 5))):
            r = d(st.integers(0, 4))
            if r < 2:
                s = d(st.sampled_from([";", ","]))
                items.append(["s", s])
                seps.add(s)
            else:
                it = pitem()
                if items and items[-1][0] == "e" and (items[-1][1][0] in ("var", "bin", "num") or it[0] in ("var", "bin")):
                    items.append(["s", ";"])  # a number next to an identifier cannot be juxtaposed safely
                    seps.add(";")
                elif items and items[-1][0] == "e":
                    seps.add("juxtaposition")
                items.append(["e", it])
        if len(seps) >= 2:
            feats.add("print_two_separator_kinds")
        if d(st.integers(0, 4)) == 0:
            # 'PRINT@n' without a comma is an uncertain zone (does Color BASIC accept it / end the line?): always write the comma
            prog_lines.append([["printat", N(d(st.integers(0, 511))), items]])
            feats.add("print_at")
        else:
            prog_lines.append([["print", items]])
    # ---------------------------------------------------------------- INPUT
    for _ in range(d(st.integers(0, 2))):
        line = d(st.booleans())
        prompt = d(st.sampled_from([None, "NAME", "A B", "", "VALUE:"]))
        if prompt:
            feats.add("input_with_prompt")
        if line:
            tg = [d(st.sampled_from([["svar", "S"], ["svar", "U"]]))]
        else:
            tg = [d(st.sampled_from([["var", "A"], ["var", "C"], ["svar", "T"], ["var", "Y"]])) for _ in range(d(st.integers(1, 3)))]
        prog_lines.append([["input", prompt, tg, line], ["print", sum([[["e", t], ["s", ";"]] for t in tg], [])[:-1]]])
        feats.add("line_input" if line else "input")
    # ---------------------------------------------------------------- string functions
    g = cbgen.Gen(draw, switches, convertible=True, device_fn=False, arrays=False, max_str=maxlen, var_pool=num_vars, int_vars=["I9"], str_pool=str_vars)
    for _ in range(d(st.integers(0, 3))):
        e = g.string(d(st.integers(1, 3)))
        prog_lines.append([["let", ["svar", d(st.sampled_from(["U", "T"]))], e, False]])
        if g.nested_fn:
            feats.add("string_function_of_string_function")
    for _ in range(d(st.integers(0, 2))):
        prog_lines.append([["let", ["var", d(st.sampled_from(["X", "Y"]))], ["fn", d(st.sampled_from(["LEN", "VAL"])), [g.string(1, plain=True)]], False]])
    if d(st.integers(0, 3)) == 0:
        first_ = [["let", ["var", "X"], N(1), False]] if d(st.booleans()) else []
        prog_lines.append(first_ + [["let", ["svar", d(st.sampled_from(["U", "T", "N1"]))], ["str", d(st.sampled_from(["OPEN", "A B ", "", "x"]))], d(st.booleans()), "open"]])
        feats.add("open_string_literal_to_scalar")
    init.append(["let", ["var", "I9"], N(2), False])
    # leave some variables to their Color BASIC defaults (0 / ""): the translation must pre-initialise them
    keep = d(st.lists(st.booleans(), min_size=len(init), max_size=len(init)))
    if not all(keep):
        feats.add("variables_left_to_default")
    init = [s_ for s_, k in zip(init, keep) if k or s_[1][1] == "I9"] or init[:1]
    # ---------------------------------------------------------------- assemble
    if "rw_targets_also_top_level" in switches:
        # open finding: arrays that occur only as READ / INPUT targets are never declared - reference each array at top level once
        for name, kind, bounds, dimmed in arrays:
            if kind == "arr":
                init.append(["let", ["var", "Y"], ["arr", name, [N(0)] * len(bounds)], False])
            else:
                init.append(["let", ["svar", "U"], ["sarr", name, [N(0)] * len(bounds)], False])
    prog = []
    ln = 10
    first = True
    for stmts in prog_lines:
        if first and stmts and stmts[0][0] == "dim":
            prog.append([ln, stmts])
            ln += 10
            prog.append([ln, init])
            ln += 10
            first = False
            continue
        if first:
            prog.append([ln, init])
            ln += 10
            first = False
        prog.append([ln, stmts])
        ln += 10
    if first:
        prog.append([ln, init])
        ln += 10
    ep = []
    for v in num_vars:
        ep += [["e", ["var", v]], ["s", ";"]]
    prog.append([ln, [["print", ep[:-1]]]])
    ln += 10
    ep = []
    for v in str_vars:
        ep += [["e", ["str", "["]], ["s", ";"], ["e", ["svar", v]], ["s", ";"]]
    prog.append([ln, [["print", ep[:-1]]]])
    ln += 10
    prog.append([ln, [["end"]]])
    ln += 10
    for items in data_lines:
        prog.append([ln, [["data", items]]])
        ln += 10
    opts = {"default_str_storage": storage, "initialize_vars": d(st.booleans())}
    return full.add_layout(draw, {"prog": prog, "options": opts, "str_limit": storage, "paren_unary": "paren_unary" in switches,
                                  "_meta": {"features": sorted(feats), "excluded": {**dict(g.excluded), **excluded}}}, switches, key="source_override")


def check_case(case):
    prog = case["prog"]
    opts = dict(case.get("options", {"initialize_vars": True}))
    script = case.get("script") or {"INPUT": [4, 8, 15, 16, 23, 42, 1, 2, 3], "INPUT$": ["ZED", "A B", "", "Q", "XYZZY", "K"]}
    try:
        cb = diff.run_source(prog, script=script, str_limit=case.get("str_limit", opts.get("default_str_storage", 32)))
        src, out = diff.translate(prog, case, opts, paren_unary=case.get("paren_unary", False), source_override=case.get("source_override"))
        case["_source"] = src
    except Trivial as t:
        case["_trivial"] = t.why
        return None
    if cb.zero_trip_for:
        case["_trivial"] = "for_zero_trip (open finding)"
        return None
    if not opts.get("initialize_vars") and cb.unwritten_reads:
        # without pre-initialisation only programs that write before they read are in the domain: run this one with it
        opts["initialize_vars"] = True
        case["_forced_init"] = True
        try:
            src, out = diff.translate(prog, case, opts, paren_unary=case.get("paren_unary", False), source_override=case.get("source_override"))
        except Trivial as t:
            case["_trivial"] = t.why
            return None
    try:
        b9 = diff.run_translation(out, case, script=script)
        diff.compare(cb, b9, case, what="PRINT / INPUT trace")
    except Trivial as t:
        case["_trivial"] = t.why
        return None
    if b9.truncations:
        raise Violation("a string that fits the requested storage (%d) was truncated in the translation: %r (missing or wrong size declaration)"
                        % (opts.get("default_str_storage", 32), b9.truncations[:2]), case)
    if opts.get("initialize_vars") and b9.uninit_reads:
        raise Violation("with initialize_vars the translation reads %s, which was never initialised" % sorted(set(b9.uninit_reads))[:4], case)
    return None


def campaign(seed, n, switches=frozenset()):
    stats = Stats()

    def body(case):
        meta = case.pop("_meta")
        if meta.get("drawn_layout"):
            stats.classes["drawn_layout"] += 1
        case = dict(case)
        check_case(case)
        triv = case.get("_trivial")
        keyf = {"dimmed_array", "implicit_array", "two_data_lines", "restore", "empty_data_item", "print_two_separator_kinds", "input_with_prompt", "string_function_of_string_function"}
        nt = not triv and len(keyf & set(meta["features"])) >= 2
        classes = ["feature_" + f for f in meta["features"]] + ["storage_%d" % case["options"]["default_str_storage"], "initialize_vars_%s" % case["options"]["initialize_vars"]]
        if triv:
            classes.append("trivial_" + triv.split(":")[0].split(" ")[0])
        if case.get("_forced_init"):
            classes.append("run_with_initialize_vars_because_source_reads_before_writing")
        for k, v in meta["excluded"].items():
            stats.excluded[k] += v
        stats.case(key=[case["prog"], case["options"]], nontrivial=nt, classes=classes, sample={"source": case.get("_source", ""), "options": case["options"]})

    core.run_hypothesis(body, cases(switches), seed=seed, max_examples=n, stats=stats)
    return stats


def plan(tier, seed, switches):
    if tier == "quick":
        return [("campaign", [dict(seed=seed * 100 + k, n=200, switches=switches) for k in range(4)])]
    return [("campaign", [dict(seed=seed * 1000 + k, n=2500, switches=switches) for k in range(16)])]
