"""C06 - every jump lands on the line it names; label filtering never breaks a target.

Programs with random reference graphs (GOTO / GOSUB / THEN n / ELSE n / ON
lists / ON ERR / ON BRK at top level, inside nested IF arms and ELSE-IF arms,
self references, line 0, missing lines, numbers around 32699/32700) are
converted under filter_unused_linenum x add_suffix.  The reference set R and
the defined set D are known from the AST; labels and jump targets are read
from the parsed output; the dispatcher block is executed."""
from fractions import Fraction

from hypothesis import strategies as st

from vf import core, tool
from vf.b09 import interp as b09i
from vf.b09 import parse
from vf.cb import render
from vf.core import Stats, Violation

ID = "C06"
RULE = (
    "programs of 2-12 lines, each starting with PRINT \"M<line>\"; built by Hypothesis with a random reference graph: GOTO, GOSUB, "
    "THEN n, ELSE n, ON..GOTO/GOSUB lists (1-4 targets), ON ERR GOTO, ON BRK GOTO at top level, after other statements, inside "
    "THEN / ELSE arms of nested IFs and ELSE-IF arms; self references, line 0, references to missing lines, line numbers drawn "
    "around 32699/32700, 0-3 ON ERR / ON BRK statements; options filter_unused_linenum x add_suffix (all four). Non-trivial: a "
    "reference from inside a nested arm or from an ON list position >= 2, or a refusal case; distinct by sha1 of the AST"
)
RULE += ' Also: numbering modes with labels that are prefixes of one another (1/10/100/1000/10000, 12/123/1234/12345) and with 25-45 lines of five-digit labels, ON lists of up to 12 targets, missing targets above 32699.'
ASSUMPTIONS = [
    "the dispatcher's 'errnum' is read as 'the number of the error that was trapped' (B09-9); whether that name exists on a real system is not judged",
    "duplicate line numbers are outside the domain (a Color BASIC program cannot contain them)",
]

OPTION_SETS = [{"filter_unused_linenum": f, "add_suffix": s} for f in (False, True) for s in (True, False)]


def marker(n):
    return ["print", [["e", ["str", "M%d" % n]], ["s", ";"]]]


@st.composite
def programs(draw):
    n = draw(st.integers(2, 12))
    mode = draw(st.sampled_from(["normal", "normal", "normal", "normal", "normal", "zero", "zero", "high", "prefix", "many"]))
    if mode == "prefix":
        # scale: labels that are prefixes of one another (1 / 10 / 100 / 1000 / 10000 ...), textual matching would confuse them
        nums = sorted(draw(st.sets(st.sampled_from([d_ * 10 ** k_ for d_ in (1, 2, 3) for k_ in range(5)] + [12, 123, 1234, 12345]), min_size=min(n, 8), max_size=max(n, 8))))
        n = len(nums)
    elif mode == "many":
        n = draw(st.integers(25, 45))
        nums = [100 + i * 700 for i in range(n)]  # up to 30900: five-digit labels
    elif mode == "high":
        pool = sorted(draw(st.sets(st.sampled_from([32000, 32690, 32698, 32699, 32700, 32701, 32767, 40000, 10, 20, 100]), min_size=n, max_size=n))) if n <= 11 else None
        nums = pool or list(range(10, 10 * n + 1, 10))
    else:
        start = 0 if mode == "zero" else draw(st.sampled_from([1, 5, 10, 100]))
        step = draw(st.sampled_from([1, 3, 10, 10, 100]))
        nums = [start + i * step for i in range(n)]
    missing = [x for x in (nums[-1] + 7, 9999, 0, 32700, 5, 32701, 40000, 63999) if x not in nums]
    use_missing = draw(st.integers(0, 5)) == 0
    feats = set()

    def target():
        if use_missing and draw(st.integers(0, 3)) == 0:
            feats.add("missing_target")
            return draw(st.sampled_from(missing))
        return draw(st.sampled_from(nums))

    n_err = draw(st.sampled_from([0, 0, 0, 1, 1, 1, 1, 1, 2, 3]))
    n_brk = draw(st.sampled_from([0, 0, 0, 1, 1, 1, 1, 2]))
    handlers = ["onerr"] * n_err + ["onbrk"] * n_brk

    def simple():
        return ["let", ["var", draw(st.sampled_from(["A", "B", "C"]))], ["num", str(draw(st.integers(0, 9))), 0], False]

    def ref_stmt(nested):
        r = draw(st.integers(0, 4))
        if r == 0:
            return ["goto", target()]
        if r == 1:
            return ["gosub", target()]
        if r == 2:
            k = draw(st.integers(1, 4)) if mode not in ("prefix", "many") else draw(st.integers(1, 12))
            if k >= 2:
                feats.add("on_list_ge_2")
            if k >= 9:
                feats.add("scale_on_list_ge_9")
            return ["on", ["var", "A"], draw(st.sampled_from(["GOTO", "GOSUB"])), [target() for _ in range(k)]]
        return ["goto", target()]

    def cond():
        return ["cmp", draw(st.sampled_from(["=", "<>", "<"])), ["var", draw(st.sampled_from(["A", "B"]))], ["num", str(draw(st.integers(0, 3))), 0]]

    def arm(depth, closed):
        r = draw(st.integers(0, 4))
        if r == 0:
            feats.add("then_else_line")
            return ["line", target()]
        stmts = [simple() for _ in range(draw(st.integers(0, 1)))]
        if draw(st.booleans()):
            feats.add("ref_in_arm")
            if depth < 2:
                feats.add("nested_arm_ref") if depth > 0 else None
            stmts.append(ref_stmt(True))
        elif depth < 2 and draw(st.booleans()):
            stmts.append(ifstmt(depth + 1, closed))
            return ["stmts", stmts]
        if not stmts:
            stmts.append(simple())
        return ["stmts", stmts]

    def ifstmt(depth, closed):
        form = draw(st.sampled_from(["plain", "else", "elseif"]))
        if closed and form == "plain":
            form = "else"
        if depth > 0:
            feats.add("nested_if")
        if form == "plain":
            return ["if", cond(), arm(depth, False), None]
        if form == "else":
            return ["if", cond(), arm(depth, True), arm(depth, closed)]
        feats.add("else_if_arm")
        fin = ["stmts", [ref_stmt(True) if draw(st.booleans()) else simple()]] if (closed or draw(st.booleans())) else None
        inner = ["if", cond(), ["stmts", [ref_stmt(True) if draw(st.booleans()) else simple()]], fin]
        return ["if", cond(), arm(depth, True), ["stmts", [inner]]]

    prog = []
    for ln in nums:
        stmts = [marker(ln)]
        for _ in range(draw(st.integers(0, 2))):
            r = draw(st.integers(0, 5))
            if r < 2:
                stmts.append(simple())
            elif r < 4:
                stmts.append(ref_stmt(False))
                feats.add("top_level_ref")
            elif handlers:
                h = handlers.pop()
                stmts.append([h, target()])
        if draw(st.integers(0, 2)) == 0:
            stmts.append(ifstmt(0, False))
        prog.append([ln, stmts])
    while handlers:
        h = handlers.pop()
        prog[draw(st.integers(0, len(prog) - 1))][1].insert(1, [h, target()])
    fix(prog)
    if mode in ("prefix", "many"):
        feats.add("scale_" + mode + "_line_numbers")
    return {"prog": prog, "_meta": {"features": sorted(feats)}}


def fix(x):
    if isinstance(x, list):
        if len(x) == 3 and x[0] == "num" and isinstance(x[1], str):
            x[2] = int(x[1])
        for y in x:
            fix(y)


def references(x, acc, handlers):
    """Collect referenced line numbers from the AST."""
    if isinstance(x, list) and x:
        k = x[0]
        if k in ("goto", "gosub") and len(x) == 2 and isinstance(x[1], int):
            acc.append(x[1])
        elif k == "line" and len(x) >= 2 and isinstance(x[1], int):
            acc.append(x[1])
        elif k == "on" and len(x) == 4:
            acc.extend(x[3])
        elif k in ("onerr", "onbrk") and len(x) == 2:
            acc.append(x[1])
            handlers.append((k, x[1]))
        for y in x:
            references(y, acc, handlers)


def output_facts(out, case):
    try:
        lines = parse.parse_program(out)
    except parse.B09SyntaxError as e:
        raise Violation("output does not parse: %s" % e, case)
    labels = {}
    targets = []
    unlabeled = []
    for ln in lines:
        first = ln.stmts[0] if ln.stmts else None
        mk = None
        if first is not None and first.kind == "print" and first.items and first.items[0][0] == "item" and first.items[0][1][0] == "str" \
                and first.items[0][1][1].startswith("M"):
            mk = first.items[0][1][1]
        if ln.label is not None:
            labels.setdefault(ln.label, []).append(mk)
        for s in ln.stmts:
            if s.kind in ("goto", "gosub", "ifgoto"):
                targets.append(s.target)
            elif s.kind == "ongo":
                targets.extend(s.targets)
            elif s.kind == "onerror" and s.target is not None:
                targets.append(s.target)
    return lines, labels, targets


def strip_labels(out):
    res = []
    for raw in out.split("\n"):
        i = 0
        while i < len(raw) and raw[i].isdigit():
            i += 1
        if i and i < len(raw) and raw[i] == " ":
            res.append(raw[i + 1:])
        else:
            res.append(raw)
    return "\n".join(res)


def run_dispatcher(lines, errno, case):
    procs = b09i.compile_program(lines)
    it = b09i.B09Interp(procs, step_limit=200, strict_bool=True)
    it.stop_at_label_jump = []
    env = b09i.Env(procs[""])
    it.main_env = env
    env.vars["ERRNUM"] = Fraction(errno)
    if 32700 not in procs[""].labels:
        raise Violation("no line 32700 although a handler was requested", case)
    try:
        it.exec_proc(env, start=procs[""].labels[32700])
    except b09i._Halt:
        pass
    except (b09i.B09Error, Exception) as e:  # noqa
        raise Violation("dispatcher block cannot be executed: %s: %s" % (type(e).__name__, e), case)
    return it.stop_at_label_jump[0] if it.stop_at_label_jump else None


def check_case(case):
    prog = case["prog"]
    src = render.render(prog)
    case["_source"] = src
    D = [ln for ln, _ in prog]
    refs, handlers = [], []
    references([s for _, ss in prog for s in ss], refs, handlers)
    R = set(refs)
    n_err = sum(1 for h in handlers if h[0] == "onerr")
    n_brk = sum(1 for h in handlers if h[0] == "onbrk")
    expect_refusal = set()
    if not R <= set(D):
        expect_refusal.add("ParseError")
    if any(d > 32699 for d in D):
        expect_refusal.add("LineNumberTooLargeException")
    if n_err > 1 or n_brk > 1:
        expect_refusal.add("ParseError")
    outs = {}
    for opts in case.get("option_sets", OPTION_SETS):
        key = (opts["filter_unused_linenum"], opts["add_suffix"])
        status, out = tool.try_convert(src, **opts)
        sub = {"prog": prog, "option_sets": [opts]}
        if status == "internal":
            case["_status"] = "internal"
            return None  # C15's business
        if expect_refusal:
            case["_status"] = "refusal_expected"
            if status == "ok":
                raise Violation("program should be refused (%s) but was converted (options %s)" % (sorted(expect_refusal), opts), sub)
            if out not in expect_refusal:
                raise Violation("refused with %s, expected one of %s" % (out, sorted(expect_refusal)), sub)
            continue
        if status != "ok":
            raise Violation("program with defined targets, legal line numbers and <= 1 handler of each kind was refused: %s (options %s)" % (out, opts), sub)
        case["_status"] = "ok"
        outs[key] = out
        lines, labels, targets = output_facts(out, sub)
        has_dispatcher = bool(handlers) and opts["add_suffix"]
        for t in targets:
            if t == 32700:
                if not handlers:
                    raise Violation("jump to 32700 without any handler in the source", sub)
                if not opts["add_suffix"]:
                    continue
            elif t not in R:
                raise Violation("output jumps to %d, which the source never mentions" % t, sub)
            if len(labels.get(t, [])) != 1:
                raise Violation("jump target %d labels %d output lines (options %s)" % (t, len(labels.get(t, [])), opts), sub)
            if t != 32700 and labels[t][0] != "M%d" % t:
                raise Violation("label %d sits on a line that did not come from source line %d (marker %r)" % (t, t, labels[t][0]), sub)
        for lab, mks in labels.items():
            if len(mks) != 1:
                raise Violation("label %d occurs %d times" % (lab, len(mks)), sub)
            if lab != 32700 and mks[0] != "M%d" % lab:
                raise Violation("label %d sits on a line with marker %r" % (lab, mks[0]), sub)
        want = set(R) if opts["filter_unused_linenum"] else set(D) - ({0} if 0 not in R else set())
        if has_dispatcher:
            want = want | {32700}
        if set(labels) != want:
            raise Violation("labels in the output are %s, expected %s (options %s)" % (sorted(labels)[:12], sorted(want)[:12], opts), sub)
        if has_dispatcher:
            err_line = next((t for k, t in handlers if k == "onerr"), None)
            brk_line = next((t for k, t in handlers if k == "onbrk"), None)
            for code in (2, 1, 3, 52, 200, 255):
                got = run_dispatcher(lines, code, sub)
                want_t = brk_line if (code == 2 and brk_line is not None) else err_line
                if got != want_t:
                    raise Violation("dispatcher sends error %d to %r, expected %r (ON ERR %r, ON BRK %r)" % (code, got, want_t, err_line, brk_line), sub)
    if not expect_refusal:
        for suffix in (True, False):
            a, b = outs.get((False, suffix)), outs.get((True, suffix))
            if a is not None and b is not None and strip_labels(a) != strip_labels(b):
                raise Violation("filtering unused labels changed more than labels (add_suffix=%s)" % suffix, {"prog": prog})
    return None


def campaign(seed, n, switches=frozenset()):
    stats = Stats()

    def body(case):
        meta = case.pop("_meta")
        case = dict(case)
        check_case(case)
        f = meta["features"]
        nt = case.get("_status") == "refusal_expected" or "nested_arm_ref" in f or "on_list_ge_2" in f or ("ref_in_arm" in f and "nested_if" in f)
        stats.case(key=case["prog"], nontrivial=nt and case.get("_status") != "internal",
                   classes=["status_" + case.get("_status", "?")] + ["feature_" + x for x in f], sample={"source": case["_source"]})

    core.run_hypothesis(body, programs(), seed=seed, max_examples=n, stats=stats)
    return stats


def plan(tier, seed, switches):
    if tier == "quick":
        return [("campaign", [dict(seed=seed * 100 + k, n=375, switches=switches) for k in range(4)])]
    return [("campaign", [dict(seed=seed * 1000 + k, n=6500, switches=switches) for k in range(16)])]
