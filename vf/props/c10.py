"""C10 - every array and string gets exactly one declaration with the requested size.

Programs whose variables occur in every position class (top level, only inside
function arguments, only as READ/INPUT targets, only as implicit array
elements, only under VARPTR, DIM'd scalars and arrays of 1-3 dimensions) are
converted under drawn default_str_storage / per-name size maps /
initialize_vars.  Declarations and uses are read from the parsed output; the
identifier of each source variable is learnt by probing the tool with a
one-line program (no naming scheme is assumed)."""
import functools

from hypothesis import strategies as st

from vf import core, tool
from vf.b09 import parse
from vf.core import Stats, Violation

ID = "C10"
RULE = (
    "programs over 2-7 variables with distinct two-character prefixes, each with a drawn kind (numeric/string scalar/array), a drawn "
    "position class (top-level assignment, only inside a function argument, only READ target, only INPUT target, only under VARPTR, only "
    "as implicit array element, DIM'd with 1-3 dimensions and decimal or hex bounds) x default_str_storage in {32, 33..300} x a random valid "
    "per-name size map x initialize_vars; plus invalid size maps that StringConfigs must refuse. Non-trivial: >= 1 variable in a "
    "non-top-level position class and a non-default string size; distinct by sha1 of (program, options)"
)
RULE += ' The slot table covers every operand position of every statement and function of the grammar (110 numeric, 34 string templates); now and then 10-14 declared names and a statement with 10-14 string temporaries; varied surroundings (no standard prefix, label filter, no suffix).'
ASSUMPTIONS = [
    "BASIC09: BASE 0 keeps the element count, so DIM x(n) holds n elements (source bound + 1 are needed); identifiers are case-insensitive",
    "the identifier of a source variable is learnt by converting a one-line probe program and reading the assignment target",
]

NAMES = ["AA", "BQ", "CX", "DV", "EK", "FM", "GW", "HZ", "K2", "L7", "MU", "NB", "QY", "RJ", "SV", "UU", "VC", "WD", "XE", "YF", "ZG"]
POSITIONS = ["top", "top", "fnarg", "read", "input", "varptr", "dim", "dim", "slot", "slot"]
# statement templates with one expression slot ({n}: numeric expression using the variable, {s}: string expression using it)
NUM_SLOTS = ["FOR ZI={n} TO 3:NEXT", "FOR ZI=1 TO {n}:NEXT", "FOR ZI=1 TO 3 STEP {n}+1:NEXT", "ON {n} GOTO 10", "ON {n} GOSUB 10", "PRINT {n}", "PRINT TAB({n});1", "PRINT 1;{n}", "PRINT -{n}",
             "IF {n}>1 THEN ZN=2", "IF {n}=0 THEN ZN=1 ELSE ZN=3", "IF 1=>{n} THEN 10", "IF ZN=1 THEN ZN={n}", "IF ZN=1 THEN ZN=2 ELSE ZN={n}",
             "ZN=ZQ({n})", "ZQ({n})=1", "LET ZN={n}", "ZN=-{n}", "ZN=NOT {n}", "ZN=({n})*2", "ZN={n}^2", "ZN=1 AND {n}",
             "POKE 1024,{n}", "POKE {n},1", "POKE &HFFD9,{n}", "SOUND {n},1", "SOUND 1,{n}", "PRINT@{n},\"X\"", "PRINT@1,{n}", "LOCATE 1,{n}", "LOCATE {n},1",
             "CLS {n}", "CLS -{n}", "WIDTH {n}", "ATTR {n},1", "ATTR 1,{n},B", "PALETTE {n},1", "PALETTE 1,{n}", "HSCREEN {n}", "HCLS {n}", "HCOLOR {n}", "HCOLOR 1,{n}",
             "HSET({n},2)", "HSET(1,{n})", "HSET(1,2,{n})", "HRESET({n},2)", "HRESET(1,{n})", "SET({n},1,2)", "SET(1,{n},2)", "SET(1,1,{n})", "RESET({n},1)", "RESET(1,{n})",
             "HCIRCLE({n},1),2", "HCIRCLE(1,{n}),2", "HCIRCLE(1,1),{n}", "HCIRCLE(1,1),2,{n}", "HCIRCLE(1,1),2,3,{n}", "HCIRCLE(1,1),2,,{n}", "HCIRCLE(1,1),2,3,4,{n},5",
             "HCIRCLE(1,1),2,3,4,5,{n}", "HCIRCLE(1,1),2,,4,{n},5",
             "HLINE({n},1)-(2,2),PSET", "HLINE(1,{n})-(2,2),PRESET", "HLINE(1,1)-({n},2),PSET,B", "HLINE(1,1)-(2,{n}),PRESET,BF", "HLINE-({n},2),PSET", "HLINE-(2,{n}),PSET,B",
             "HPAINT({n},1)", "HPAINT(1,{n})", "HPAINT(1,1),{n}", "HPAINT(1,1),2,{n}", "HPRINT({n},1),\"X\"", "HPRINT(1,{n}),\"X\"",
             "HBUFF {n},10", "HBUFF 1,{n}", "HGET({n},1)-(2,2),1", "HGET(1,{n})-(2,2),1", "HGET(1,1)-({n},2),1", "HGET(1,1)-(2,{n}),1", "HGET(1,1)-(2,2),{n}",
             "HPUT({n},1)-(2,2),1,PSET", "HPUT(1,{n})-(2,2),1,AND", "HPUT(1,1)-({n},2),1,OR", "HPUT(1,1)-(2,{n}),1,XOR", "HPUT(1,1)-(2,2),{n},NOT", "HPUT(1,1)-(2,2),{n},PRESET",
             "ZN=INT({n})", "ZN=ABS({n})", "ZN=SGN({n})", "ZN=SQR({n})", "ZN=SIN({n})", "ZN=ATN({n})", "ZN=FIX({n})", "ZN=PEEK({n})", "ZN=RND({n})", "ZN=BUTTON({n})",
             "ZN=POINT({n},1)", "ZN=POINT(1,{n})", "ZS$=STR$({n})", "ZS$=HEX$({n})", "ZS$=CHR$(65+{n})", "ZS$=LEFT$(\"AB\",{n})", "ZS$=RIGHT$(\"AB\",{n})", "ZS$=MID$(\"ABC\",{n},1)",
             "ZS$=MID$(\"ABC\",1,{n})", "ZS$=STRING$({n},\"*\")", "ZN=INSTR({n},\"AB\",\"B\")", "INPUT ZQ({n})", "READ ZQ({n}):DATA 1", "ZN=VARPTR(ZQ({n}))"]
STR_SLOTS = ["FOR ZI=1 TO 3 STEP LEN({s})+1:NEXT", "PRINT {s}", "PRINT 1;{s}", "PRINT \"A\"{s}", "PRINT@1,{s}", "IF {s}=\"Q\" THEN ZN=2", "IF {s}<>\"\" THEN ZN=1 ELSE ZN=3",
             "IF \"Q\"=<{s} THEN 10", "IF ZN=1 THEN ZS$={s}", "IF ZN=1 THEN ZN=2 ELSE ZS$={s}", "ZN=ZQ(LEN({s}))", "PLAY {s}", "HDRAW {s}", "HPRINT(1,1),{s}",
             "LET ZS$={s}", "ZS$=\"A\"+{s}", "ZS$={s}+\"A\"", "ZN=VAL({s})", "ZN=LEN({s})", "ZN=ASC({s})", "ZN=INSTR(1,{s},\"A\")", "ZN=INSTR(1,\"A\",{s})", "ZS$=STRING$(2,{s}+\"*\")",
             "ZS$=STRING$(2,{s})", "ZS$=MID$({s}+\"ABC\",1,2)", "ZS$=MID$({s},1,2)", "ZS$=LEFT$({s},1)", "ZS$=RIGHT$({s},1)", "ON ASC({s}+\"A\")-64 GOTO 10",
             "ZQ(LEN({s}))=1", "POKE 1024,LEN({s})", "HSET(LEN({s}),1)", "HGET(LEN({s}),1)-(2,2),1", "SOUND LEN({s}),1"]


@functools.lru_cache(maxsize=None)
def ident_of(name, kind):
    """Emitted identifier of a source variable, learnt from the tool itself."""
    src = {"num": "10 %s=1", "str": '10 %s$="X"', "arr": "10 %s(1)=1", "sarr": '10 %s$(1)="X"'}[kind] % name
    out = tool.convert(src, add_standard_prefix=False, add_suffix=False)
    for ln in parse.parse_program(out):
        if ln.label == 10:
            for s in ln.stmts:
                if s.kind == "assign":
                    return s.target[1].upper()
    raise core.HarnessError("probe for %s/%s gave no assignment" % (name, kind))


@st.composite
def cases(draw, switches):
    nv = draw(st.integers(2, 7)) if draw(st.integers(0, 5)) else draw(st.integers(10, 14))  # now and then more than nine declared names
    # (name, kind) pairs are unique, names are not: AA, AA$, AA() and AA$() are four different variables
    pairs = draw(st.lists(st.tuples(st.sampled_from(NAMES[:8] if draw(st.booleans()) else NAMES), st.sampled_from(["num", "str", "arr", "sarr", "arr", "sarr"])),
                          min_size=nv, max_size=nv, unique=True))
    vars_ = []
    lines = []
    dims_line = []
    body = []
    data = []
    for nm, kind in pairs:
        pos = draw(st.sampled_from(POSITIONS))
        v = {"name": nm, "kind": kind, "pos": pos, "dims": None, "dimmed": False}
        isarr = kind in ("arr", "sarr")
        sfx = "$" if kind in ("str", "sarr") else ""
        if pos == "dim":
            v["dimmed"] = True
            if isarr:
                nd = draw(st.integers(1, 3))
                bounds = []
                texts = []
                for _ in range(nd):
                    b = draw(st.integers(0, 12))
                    if draw(st.integers(0, 3)) == 0:
                        texts.append("&H%X" % b)
                    else:
                        texts.append(str(b))
                    bounds.append(b)
                v["dims"] = [b + 1 for b in bounds]
                dims_line.append("%s%s(%s)" % (nm, sfx, ",".join(texts)))
            else:
                dims_line.append(nm + sfx)
            ref = "%s%s(%s)" % (nm, sfx, ",".join("0" for _ in v["dims"])) if isarr else nm + sfx
            body.append(("%s=%s" % (ref, '"D"' if sfx else "4")))
            vars_.append(v)
            continue
        if isarr:
            if "implicit_arrays_1d" in switches:
                nd = 1
            else:
                nd = draw(st.sampled_from([1, 1, 1, 2, 3]))
            if kind == "sarr" and "implicit_string_arrays_default_storage_only" in switches:
                v["implicit_string_array"] = True
            v["dims"] = [11] * nd
            ref = "%s%s(%s)" % (nm, sfx, ",".join(str(draw(st.integers(0, 10))) for _ in range(nd)))
        else:
            ref = nm + sfx
        if pos == "top":
            body.append("%s=%s" % (ref, '"T"+"U"' if sfx else "1+2"))
        elif pos == "fnarg":
            body.append(("ZS$=LEFT$(%s,1)" % ref) if sfx else ("ZN=ABS(%s)" % ref))
        elif pos == "read":
            body.append("READ %s" % ref)
            data.append("ITEM" if sfx else "7")
        elif pos == "input":
            body.append("INPUT %s" % ref)
        elif pos == "varptr":
            body.append("ZN=VARPTR(%s)" % ref)
        elif pos == "slot":
            tmpl = draw(st.sampled_from(STR_SLOTS if sfx else NUM_SLOTS))
            body.append(tmpl.format(n=ref, s=ref))
            v["pos"] = "slot:" + tmpl.replace("{n}", "_").replace("{s}", "_")[:24]
        if pos == "slot" and tmpl.startswith(("INPUT", "READ", "ZN=VARPTR")):
            pos = "input"  # the variable sits inside a READ / INPUT / VARPTR operand: same open finding as the target itself
        if pos in ("read", "input", "varptr") and "rw_targets_also_top_level" in switches:
            # open finding: names seen only as READ / INPUT targets or under VARPTR are not declared
            body.append("%s=%s" % (ref, '"T"' if sfx else "1"))
            v["pos"] = v["pos"] + "+top"
        vars_.append(v)
    # a statement that needs string temporaries
    if draw(st.integers(0, 5)) == 0:
        # ten or more string temporaries in one statement (tmp_10$ ...)
        k_ = draw(st.integers(10, 14))
        body.append(draw(st.sampled_from(["PRINT " + ";".join(["ZN"] * k_), "ZS$=" + "+".join(["STR$(ZN)"] * k_), "PRINT " + ";".join(["HEX$(%d)" % i for i in range(k_)])])))
    if draw(st.booleans()):
        body.append("PRINT STR$(ZN);ZN")
    if draw(st.booleans()):
        body.append('ZS$=HEX$(255)+STRING$(2,"*")')
    order = draw(st.permutations(body))
    ln = 10
    if dims_line:
        # one to three DIM statements, on one line or several
        k = draw(st.integers(1, min(3, len(dims_line))))
        cuts = sorted(draw(st.lists(st.integers(1, len(dims_line) - 1), min_size=k - 1, max_size=k - 1, unique=True))) if len(dims_line) > 1 and k > 1 else []
        groups, prev = [], 0
        for c in cuts + [len(dims_line)]:
            groups.append(dims_line[prev:c])
            prev = c
        groups = [g for g in groups if g]
        if draw(st.booleans()):
            lines.append("%d %s" % (ln, ":".join("DIM " + ",".join(g) for g in groups)))
            ln += 10
        else:
            for g in groups:
                lines.append("%d DIM %s" % (ln, ",".join(g)))
                ln += 10
    i = 0
    while i < len(order):
        k = draw(st.integers(1, 3))
        lines.append("%d %s" % (ln, ":".join(order[i:i + k])))
        ln += 10
        i += k
    if data:
        lines.append("%d DATA %s" % (ln, ",".join(data)))
    storage = draw(st.sampled_from([32, 32, 33, 40, 80, 255, 300]))
    if storage != 32 and "implicit_string_arrays_default_storage_only" in switches and any(v["kind"] == "sarr" and not v["dimmed"] for v in vars_):
        storage = 32
    cfg = {}
    for v in vars_:
        if v["kind"] in ("str", "sarr") and draw(st.booleans()):
            key = v["name"] + ("$()" if v["kind"] == "sarr" else "$")
            cfg[key] = draw(st.sampled_from([1, 8, 31, 33, 64, 200, 32766]))
    opts = {"default_str_storage": storage, "initialize_vars": draw(st.booleans()), "string_configs": cfg}
    # surroundings that should not matter for declarations
    if draw(st.integers(0, 3)) == 0:
        opts["add_standard_prefix"] = False
    if draw(st.integers(0, 3)) == 0:
        opts["filter_unused_linenum"] = True
    if draw(st.integers(0, 5)) == 0:
        opts["add_suffix"] = False
    return {"source": "\n".join(lines), "vars": vars_, "options": opts}


def output_model(out, case):
    try:
        lines = parse.parse_program(out)
    except parse.B09SyntaxError as e:
        return None
    decls = []  # (ident, dims, type, size, lineindex)
    uses = []  # (ident, is_indexed, nargs, lineindex)
    for li, ln in enumerate(lines):
        for s in ln.stmts:
            if s.kind == "dim":
                for g in s.groups:
                    for nm, dims in g["names"]:
                        decls.append((nm.upper(), list(dims), (g["type"] or "").upper(), g["size"], li))
            else:
                exprs = parse.stmt_exprs(s)
                for e in exprs:
                    for sub in parse.walk_expr(e):
                        if sub[0] == "idx":
                            uses.append((sub[1].upper(), True, len(sub[2]), li))
                        elif sub[0] == "var":
                            uses.append((sub[1].upper(), False, 0, li))
    return decls, uses


def check_case(case):
    opts = dict(case["options"])
    src = case["source"]
    status, out = tool.try_convert(src, **opts)
    case["_status"] = status
    if status != "ok":
        if status == "refused":
            raise Violation("a program of the documented fragment with a valid size map was refused (%s)" % out, case)
        return None
    model = output_model(out, case)
    if model is None:
        case["_status"] = "unparsable"
        return None  # C07's business
    decls, uses = model
    seen = {}
    for ident, dims, typ, size, li in decls:
        if ident in seen:
            raise Violation("identifier %s is declared twice (output lines %d and %d)" % (ident, seen[ident] + 1, li + 1), case)
        seen[ident] = li
    storage = opts.get("default_str_storage", 32)
    cfg = opts.get("string_configs", {})
    by_ident = {d[0]: d for d in decls}
    for v in case["vars"]:
        ident = ident_of(v["name"], v["kind"])
        isarr = v["kind"] in ("arr", "sarr")
        first_use = min([u[3] for u in uses if u[0] == ident], default=None)
        d = by_ident.get(ident)
        if isarr:
            if d is None:
                raise Violation("array %s%s (emitted as %s, position class %s) is never declared" % (v["name"], "$" if v["kind"] == "sarr" else "", ident, v["pos"]), case)
            if d[1] != v["dims"]:
                raise Violation("array %s is declared with dimensions %r, the source needs %r (bound + 1 per dimension, 11 for an undimensioned array)"
                                % (ident, d[1], v["dims"]), case)
            if first_use is not None and d[4] > first_use:
                raise Violation("array %s is declared after its first use" % ident, case)
        if v["kind"] in ("str", "sarr") and storage != 32:
            if first_use is None and d is None:
                continue
            key = v["name"] + ("$()" if v["kind"] == "sarr" else "$")
            want = cfg[key] if (v["dimmed"] and key in cfg) else storage
            if d is None or d[2] != "STRING" or d[3] is None:
                raise Violation("string %s (emitted as %s, position class %s) has no explicit size although default_str_storage=%d"
                                % (key, ident, v["pos"], storage), case)
            if d[3] != want:
                raise Violation("string %s is declared STRING[%d], expected STRING[%d]" % (ident, d[3], want), case)
        elif v["kind"] in ("str", "sarr") and v["dimmed"]:
            key = v["name"] + ("$()" if v["kind"] == "sarr" else "$")
            if key in cfg and cfg[key] != 32:
                if d is None or d[3] != cfg[key]:
                    raise Violation("string %s is configured with size %d but declared %r" % (key, cfg[key], d), case)
    if storage != 32:
        known = {ident_of(v["name"], v["kind"]) for v in case["vars"]}
        for ident, indexed, nargs, li in uses:
            if ident.endswith("$") and ident not in known:
                d = by_ident.get(ident)
                if d is None or d[2] != "STRING" or d[3] != storage:
                    raise Violation("string %s (not a variable of the probe set: a temporary or helper) is used without a STRING[%d] declaration"
                                    % (ident, storage), case)
    return None


INVALID_CONFIGS = [{"A": 3}, {"a$": 3}, {"AAA$": 3}, {"A$": 0}, {"A$": 32767}, {"9A$": 1}, {"_A$": 1}, {"A()$": 1}, {"()A$": 1}, {"A$": -1}, {"$": 4}, {"A$)": 4}]
VALID_CONFIGS = [{"A$": 1}, {"B$()": 22}, {"B1$()": 33}, {"B1$": 100}, {"B_$": 133}, {"ZZ$": 32766}]


def config_cases(switches=frozenset()):
    stats = Stats()
    import pydantic
    from coco.b09.configs import StringConfigs

    for cfg in INVALID_CONFIGS:
        try:
            StringConfigs(strname_to_size=cfg)
            stats.fail("invalid size map %r was accepted" % (cfg,), {"source": "10 A$=\"\"", "vars": [], "options": {"string_configs": cfg}, "expect": "invalid"})
        except pydantic.ValidationError:
            pass
        stats.case(key=["invalid", cfg], nontrivial=True, classes=["invalid_config"], sample={"config": cfg})
    for cfg in VALID_CONFIGS:
        try:
            StringConfigs(strname_to_size=cfg)
        except pydantic.ValidationError as e:
            stats.fail("valid size map %r was refused" % (cfg,), {"source": "10 A$=\"\"", "vars": [], "options": {"string_configs": cfg}})
        stats.case(key=["valid", cfg], nontrivial=True, classes=["valid_config"], sample={"config": cfg})
    return stats


def campaign(seed, n, switches=frozenset()):
    stats = Stats()

    def body(case):
        case = dict(case)
        check_case(case)
        nontop = any(v["pos"] not in ("top", "dim") for v in case["vars"])
        nt = case["_status"] == "ok" and nontop and case["options"]["default_str_storage"] != 32
        classes = ["status_" + case["_status"]] + sorted({"pos_" + v["pos"].split(":")[0] for v in case["vars"]}) + sorted({"kind_" + v["kind"] for v in case["vars"]})
        if case["options"]["default_str_storage"] != 32:
            classes.append("non_default_storage")
        if case["options"]["string_configs"]:
            classes.append("per_name_sizes")
        for sw in switches:
            stats.excluded[sw] += 1
        stats.case(key=[case["source"], case["options"]], nontrivial=nt, classes=classes, sample={"source": case["source"], "options": case["options"]})

    core.run_hypothesis(body, cases(switches), seed=seed, max_examples=n, stats=stats)
    return stats


def plan(tier, seed, switches):
    if tier == "quick":
        return [("campaign", [dict(seed=seed * 100 + k, n=1200, switches=switches) for k in range(4)]), ("config_cases", [dict(switches=switches)])]
    return [("campaign", [dict(seed=seed * 1000 + k, n=3500, switches=switches) for k in range(15)]), ("config_cases", [dict(switches=switches)])]
