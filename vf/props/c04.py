"""C04 - screen, graphics and sound statements reach the runtime with the right operands.

A role table written from the Color BASIC manuals (DESIGN.md appendix D) maps
each statement form to operand roles, each role to the *name* of the library
parameter that implements it, and to the documented default when omitted.
Parameter positions are read from the PARAM lists of the current ecb.b09.  The
CB reference evaluates the operands; the BASIC09 reference runs the
translation and records every RUN with its evaluated arguments."""
from fractions import Fraction

from hypothesis import strategies as st

from vf import core, diff, sem
from vf.b09 import interp as b09i
from vf.b09 import lib
from vf.cb import render
from vf.core import Stats, Violation
from vf.diff import Trivial
from vf.gen import cbgen, full

ID = "C04"
RULE = (
    "every device statement form of the property (59 forms: all presence patterns of optional operands, HLINE absolute/relative x PSET/PRESET x none/B/BF, "
    "HCIRCLE circle/ellipse/arc with and without colour, HPAINT 0-2 extras, HSET 2/3 operands, ATTR with flag multisets, POKE to the speed addresses in "
    "decimal and hex and elsewhere, BUTTON / POINT / INKEY$) enumerated once with literal operands, plus Hypothesis-drawn programs of 1-3 device "
    "statements whose operands are arbitrary numeric / string expressions (literals, variables, array elements, arithmetic, convertible functions). "
    "Non-trivial: >= 1 omitted optional operand or >= 1 non-literal operand; distinct by (form, operand shape classes)"
)
RULE += ' Also: every order of the two speed pokes (decimal / hex) in front of a SOUND; statements whose operands need 12-20 temporaries; several device statements on one line and inside THEN / ELSE branches; one case in two in a drawn layout; varied surroundings (add_suffix off, label filter on, string size 80, 40-column start). A refusal of a generated program counts as a violation.'
ASSUMPTIONS = [
    "the role table of DESIGN.md appendix D (operand order of the Color BASIC statements, documented defaults); 'fg' is the symbolic value of display.hfore",
    "parameter positions come from the PARAM lines of the current ecb.b09, never from a frozen copy",
]

FG = Fraction(-424242)  # symbolic current hi-res foreground colour

# KIND -> (procedure, {role: param name}, {param: default}, {param: record/variable name})
T = {
    "CLS": ("ecb_cls", {"a": "color"}, {"color": Fraction(1)}, {"display": "display"}),
    "LOCATE": ("ecb_locate", {"x": "x", "y": "y"}, {}, {}),
    "ATTR": ("ecb_attr", {"f": "f", "b": "b"}, {}, {"display": "display"}),
    "WIDTH": ("_ecb_width", {"a": "width"}, {}, {"display": "display"}),
    "PALETTE": ("ecb_set_palette", {"r": "pr", "c": "cc"}, {}, {"display": "display"}),
    "PALETTE RGB": ("ecb_set_palette_rgb", {}, {}, {"display": "display"}),
    "RGB": ("ecb_set_palette_rgb", {}, {}, {"display": "display"}),
    "PALETTE CMP": ("ecb_set_palette_cmp", {}, {}, {"display": "display"}),
    "CMP": ("ecb_set_palette_cmp", {}, {}, {"display": "display"}),
    "HSCREEN": ("ecb_hscreen", {"a": "n"}, {"n": Fraction(0)}, {"display": "display"}),
    "HCLS": ("ecb_hcls", {"a": "n"}, {"n": Fraction(-1)}, {"display": "display"}),
    "HCOLOR": ("ecb_hcolor", {"f": "f", "b": "b"}, {"b": Fraction(-1)}, {"display": "display"}),
    "HSET": ("ecb_hset", {"x": "x", "y": "y"}, {}, {"display": "display"}),
    "HSET3": ("ecb_hset3", {"x": "x", "y": "y", "c": "c"}, {}, {"display": "display"}),
    "HRESET": ("ecb_hreset", {"x": "x", "y": "y"}, {}, {"display": "display"}),
    "SET": ("ecb_set", {"x": "x", "y": "y", "c": "c"}, {}, {}),
    "RESET": ("ecb_reset", {"x": "x", "y": "y"}, {}, {}),
    "HPAINT": ("ecb_hpaint", {"x": "x", "y": "y", "c": "c", "b": "c0"}, {"c": FG, "c0": FG}, {"d": "display"}),
    "HPRINT": ("ecb_hprint", {"x": "x", "y": "y", "t": "txt"}, {}, {"display": "display"}),
    "HDRAW": ("ecb_hdraw", {"s": "s"}, {}, {"d": "display"}),
    "PLAY": ("ecb_play", {"s": "s"}, {}, {"p": "play"}),
    "HBUFF": ("_ecb_hbuff", {"n": "b", "size": "s"}, {}, {"pid": "pid", "d": "display"}),
    "HGET": ("ecb_hget", {"x0": "x0", "y0": "y0", "x1": "x1", "y1": "y1", "n": "b"}, {}, {"p": "pid", "d": "display"}),
    "HPUT": ("ecb_hput", {"x0": "x0", "y0": "y0", "x1": "x1", "y1": "y1", "n": "b", "action": "a"}, {}, {"p": "pid", "d": "display"}),
    "SOUND": ("ecb_sound", {"f": "f", "d": "d"}, {"v": Fraction(31)}, {}),
}


def expected_call(kind, vals, speed):
    """-> (procedure, {param name: expected value or ('record', name)})"""
    if kind == "HCIRCLE":
        form = vals.get("form", "circle")
        proc = "ecb_harc" if form == "arc" else "ecb_hcircle"
        exp = {"x": vals["x"], "y": vals["y"], "r": vals["r"], "c": vals.get("c", FG), "rt": vals.get("hw", Fraction(1)), "display": ("record", "display")}
        if form == "arc":
            exp["sp"] = vals["s"]
            exp["ep"] = vals["e"]
        return proc, exp
    if kind == "HLINE":
        absolute = "x0" in vals
        exp = {"rd": "d" if absolute else "r", "x0": vals.get("x0", Fraction(0)), "y0": vals.get("y0", Fraction(0)), "x1": vals["x1"], "y1": vals["y1"],
               "m": vals["mode"], "t": {None: "L", "B": "B", "BF": "BF"}[vals.get("box")], "display": ("record", "display")}
        return "ecb_hline", exp
    if kind == "HSET" and "c" in vals:
        kind = "HSET3"
    proc, roles, defaults, records = T[kind]
    exp = {}
    for p, d in defaults.items():
        exp[p] = d
    for role, p in roles.items():
        if role in vals:
            exp[p] = vals[role]
    if kind == "ATTR":
        flags = vals.get("flags", [])
        exp["bk"] = Fraction(1 if "B" in flags else 0)
        exp["undr"] = Fraction(1 if "U" in flags else 0)
    if kind == "SOUND":
        exp["o"] = Fraction(speed)
    for p, r in records.items():
        exp[p] = ("record", r)
    return proc, exp


SKIP_RUNS = {"ecb_int", "ecb_val", "ecb_str", "ecb_hex", "ecb_instr", "ecb_string", "ecb_read_filter"} | diff.HOUSEKEEPING
FUNC_PROCS = {"BUTTON": ("ecb_button", ["button"], "retval"), "POINT": ("ecb_point", ["x", "y"], "c0"), "INKEY$": ("inkey", [], None)}


def check_case(case):
    prog = case["prog"]
    script = case.get("script") or {"BUTTON": [1, 0, 1, 0, 1, 0], "POINT": [3, 4, 5, 6, 7, 8], "INKEY$": ["K", "", "Q", "Z", "", "M"], "JOYSTK": [5, 9, 33, 60, 2, 7]}
    try:
        cb = diff.run_source(prog, script=script)
        src, out = diff.translate(prog, case, dict({"initialize_vars": True}, **case.get("options", {})), paren_unary=case.get("paren_unary", False),
                                  source_override=case.get("source_override"))
        case["_source"] = src
    except Trivial as t:
        case["_trivial"] = t.why
        return None
    libprocs = lib.library()
    # expected calls from the CB trace
    expected = []
    speed = 0
    uses_hbuff = False
    for ev in cb.events:
        if ev[0] == "poke":
            a = int(ev[1]) if sem.is_integer(ev[1]) else None
            if a == 65496:
                speed = 0
            elif a == 65497:
                speed = 1
            else:
                expected.append(("POKE", {"addr": ev[1], "val": ev[2]}))
        elif ev[0] == "dev":
            if ev[1] == "HBUFF":
                uses_hbuff = True
            proc, exp = expected_call(ev[1], ev[2], speed)
            expected.append((proc, exp))
    fcalls = [(n, a) for n, a in cb.calls if n in FUNC_PROCS]
    # run the translation
    try:
        lines = b09i.parse.parse_program(out)
        procs = b09i.compile_program(lines)
        it = b09i.B09Interp(procs, script=script, step_limit=60000)
        env = b09i.Env(procs[""])
        it.main_env = env
        env.vars["DISPLAY.HFORE"] = FG
        try:
            it.exec_proc(env)
        except b09i._Halt:
            pass
    except b09i.parse.B09SyntaxError as e:
        raise Violation("emitted text is not well-formed BASIC09: %s" % e, case)
    except b09i.B09Error as e:
        raise Violation("emitted program cannot run as BASIC09: %s" % e, case)
    except sem.FormatDependent as e:
        case["_trivial"] = "format_dependent"
        return None
    except (sem.DomainError, sem.StepLimit) as e:
        raise Violation("translated program fails at run time where the source does not: %s" % e, case)
    got = []
    got_f = []
    init_hbuff = False
    pid_var = None
    for name, vals, argexprs in it.runs:
        if name == "_ecb_init_hbuff":
            init_hbuff = True
            if argexprs and argexprs[0][0] == "var":
                pid_var = argexprs[0][1].lower()
            continue
        if name in {f[0] for f in FUNC_PROCS.values()}:
            got_f.append((name, vals))
            continue
        if name in SKIP_RUNS:
            continue
        got.append((name, vals, argexprs))
    for ev in it.events:
        if ev[0] == "poke":
            pass
    # native POKE events interleave with RUNs in source order; compare them separately
    got_pokes = [e for e in it.events if e[0] == "poke"]
    exp_pokes = [e for e in expected if e[0] == "POKE"]
    expected = [e for e in expected if e[0] != "POKE"]
    if len(got_pokes) != len(exp_pokes):
        raise Violation("the source executes %d ordinary POKEs, the translation %d" % (len(exp_pokes), len(got_pokes)), case)
    for g, e in zip(got_pokes, exp_pokes):
        if not (diff.ev_equal(g[1], e[1]["addr"]) and diff.ev_equal(g[2], e[1]["val"])):
            raise Violation("POKE %s,%s in the source becomes POKE %s,%s" % (diff.show_event(e[1]["addr"]), diff.show_event(e[1]["val"]), diff.show_event(g[1]), diff.show_event(g[2])), case)
    if len(got) != len(expected):
        raise Violation("the source executes %d device statements, the translation makes %d runtime calls (%s vs %s)"
                        % (len(expected), len(got), [e[0] for e in expected][:6], [g[0] for g in got][:6]), case)
    for (proc, exp), (name, vals, argexprs) in zip(expected, got):
        if name != proc:
            raise Violation("device statement should call %s, the translation calls %s" % (proc, name), case)
        lp = libprocs.get(proc)
        if lp is None:
            raise Violation("runtime procedure %s is not defined in the library" % proc, case)
        params = [n.lower() for n, _ in lp.params]
        if len(vals) != len(params):
            if "no_joystk" in case.get("_switches", ()):
                pass
            raise Violation("RUN %s has %d arguments for %d parameters" % (proc, len(vals), len(params)), case)
        for pname, want in exp.items():
            if pname.lower() not in params:
                raise Violation("library procedure %s has no parameter named %s (role table vs library)" % (proc, pname), case)
            i = params.index(pname.lower())
            gotv = vals[i]
            if isinstance(want, tuple) and want[0] == "record":
                ok = isinstance(gotv, tuple) and gotv[0] == "record" and gotv[1] == want[1]
                if want[1] == "pid":
                    ok = argexprs[i][0] == "var" and (pid_var is None or argexprs[i][1].lower() == pid_var)
                if not ok:
                    raise Violation("RUN %s: parameter %s should receive the %s record/variable, got %s" % (proc, pname, want[1], diff.show_event(gotv)), case)
                continue
            if isinstance(want, str) != isinstance(gotv, str) or not diff.ev_equal(want, gotv):
                raise Violation("RUN %s: parameter %s (position %d) receives %s, the source operand / documented default is %s"
                                % (proc, pname, i + 1, diff.show_event(gotv), diff.show_event(want)), case)
    # device functions
    if len(fcalls) != len(got_f):
        raise Violation("the source evaluates %d device functions, the translation calls %d" % (len(fcalls), len(got_f)), case)
    for (fname, fargs), (name, vals) in zip(fcalls, got_f):
        proc, ins, outp = FUNC_PROCS[fname]
        if name != proc:
            raise Violation("device function %s should call %s, the translation calls %s" % (fname, proc, name), case)
        if proc in libprocs:
            params = [n.lower() for n, _ in libprocs[proc].params]
            if len(vals) != len(params):
                raise Violation("RUN %s has %d arguments for %d parameters" % (proc, len(vals), len(params)), case)
            for pn, want in zip(ins, fargs):
                i = params.index(pn)
                if not diff.ev_equal(want, vals[i]):
                    raise Violation("RUN %s: parameter %s receives %s, the source operand is %s" % (proc, pn, diff.show_event(vals[i]), diff.show_event(want)), case)
    if init_hbuff != uses_hbuff and case.get("check_prologue", True):
        # the prologue is static: it must be there iff the program *contains* HBUFF
        contains = "HBUFF" in src
        if init_hbuff != contains:
            raise Violation("the buffer prologue is %s although the program %s HBUFF" % ("present" if init_hbuff else "missing", "uses" if contains else "does not use"), case)
    # final values of variables assigned from device functions are compared through the trace
    diff.compare(_only_prints(cb), _only_prints_b9(it), case, what="values printed after the device statements", check_end=False)
    return None


class _Ev:
    def __init__(self, events, ended=None):
        self.events = events
        self.ended = ended


def _only_prints(cb):
    return _Ev([e for e in cb.events if e[0] == "print"])


def _only_prints_b9(it):
    return _Ev([e for e in it.events if e[0] == "print"])


def build_program(dev_stmts, g, draw=None):
    init = [["let", ["var", v], cbgen.lit_expr(x), False] for v, x in zip(g.int_vars, [2, 3, 5, 7, 11])]
    init += [["let", ["var", v], cbgen.lit_expr(x), False] for v, x in zip(g.real_vars, [13, 17, 19, 23, 29, 31])]
    init += [["let", ["svar", v], ["str", x], False] for v, x in zip(g.str_vars, ["U4", "R2D2", "L8", "CDE", "O3"])]
    prog = [[10, init]]
    ln = 20
    for s in dev_stmts:
        r = draw(st.integers(0, 7)) if draw is not None else 7
        if r == 0 and len(prog) > 1 and prog[-1][1][-1][0] != "if":
            prog[-1][1].append(s)  # several statements on one line
            continue
        if r == 1:
            s = ["if", ["cmp", "=", ["var", g.int_vars[0]], ["num", "2", 2]], ["stmts", [s]], ["stmts", [["let", ["var", "Z9"], ["num", "1", 1], False]]]]
        elif r == 2:
            s = ["if", ["cmp", "<>", ["var", g.int_vars[0]], ["num", "2", 2]], ["stmts", [["let", ["var", "Z9"], ["num", "1", 1], False]]], ["stmts", [s]]]
        elif r == 3:
            s = ["if", ["cmp", "=", ["var", g.int_vars[0]], ["num", "2", 2]], ["stmts", [s]], None]
        prog.append([ln, [s]])
        ln += 10
    ep = []
    for v in ("Z1", "Z2"):
        ep += [["e", ["var", v]], ["s", ";"]]
    prog.append([ln, [["print", ep[:-1]]]])
    return prog


@st.composite
def cases(draw, switches):
    fg = full.FullGen(draw, switches, operand_depth=draw(st.integers(0, 2)), temp_bias=draw(st.sampled_from([0, 2, 3, 5])), device_fn=False, arrays=True)
    n = draw(st.integers(1, 3))
    stmts = []
    forms = []
    for _ in range(n):
        if draw(st.integers(0, 7)) == 0:
            f = draw(st.sampled_from(["BUTTON", "POINT", "INKEY$"]))
            forms.append(f)
            if f == "BUTTON":
                stmts.append(["let", ["var", "Z1"], ["fn", "BUTTON", [fg.g.integer(1)]], False])
            elif f == "POINT":
                stmts.append(["let", ["var", "Z2"], ["fn", "POINT", [fg.g.integer(1), fg.g.integer(1)]], False])
            else:
                stmts.append(["let", ["svar", "T"], ["fn", "INKEY$", []], False])
            continue
        if draw(st.integers(0, 11)) == 0:
            # scale: one device statement whose operands together need 12-20 temporaries (tmp_10 ...)
            def heavy(k_):
                e_ = ["fn", "INT", [["bin", "+", fg.g.num_leaf(), cbgen.lit_expr(k_)]]]
                for q_ in range(draw(st.integers(2, 3))):
                    fg.g.n_conv += 1
                    if draw(st.booleans()):
                        e_ = ["bin", "+", e_, ["fn", "INT", [["bin", "*", fg.g.num_leaf(), cbgen.lit_expr(q_ + 2)]]]]
                    else:
                        e_ = ["bin", "+", e_, ["fn", "VAL", [["str", str(q_ + k_)]]]]
                return e_
            which = draw(st.sampled_from(["HLINE", "HPUT", "HARC", "HGET"]))
            if which == "HLINE":
                s, form = ["dev", "HLINE", {"x0": heavy(1), "y0": heavy(2), "x1": heavy(3), "y1": heavy(4), "mode": "PSET", "box": draw(st.sampled_from([None, "B", "BF"]))}], "HLINE abs PSET"
            elif which == "HPUT":
                s, form = ["dev", "HPUT", {"x0": heavy(1), "y0": heavy(2), "x1": heavy(3), "y1": heavy(4), "n": heavy(5), "action": "PSET"}], "HPUT PSET"
            elif which == "HGET":
                s, form = ["dev", "HGET", {"x0": heavy(1), "y0": heavy(2), "x1": heavy(3), "y1": heavy(4), "n": heavy(5)}], "HGET"
            else:
                s, form = ["dev", "HCIRCLE", {"x": heavy(1), "y": heavy(2), "r": heavy(3), "c": heavy(4), "hw": heavy(5), "s": heavy(6), "e": heavy(7), "form": "arc"}], "HARC"
            fg.kinds.add("scale_many_temporaries")
            forms.append(form + " many_temporaries")
            stmts.append(s)
            continue
        s, form = fg.device()
        stmts.append(s)
        forms.append(form)
    prog = build_program(stmts, fg.g, draw)
    # implicit arrays used by operands: give the corners values
    corners = []
    for name, bounds in sorted(fg.g.num_arrays.items()):
        corners.append(["let", ["arr", name, [["num", "0", 0]] * len(bounds)], ["num", "41", 41], False])
        corners.append(["let", ["arr", name, [["num", "10", 10]] * len(bounds)], ["num", "43", 43], False])
    if corners:
        prog.insert(1, [15, corners])
    nonlit = fg.g.n_ops > 0 or fg.g.n_conv > 0 or bool(fg.g.used)
    # surroundings that must not matter for the calls (nor for the buffer prologue)
    options = {}
    if draw(st.integers(0, 3)) == 0:
        options["add_suffix"] = False
    if draw(st.integers(0, 3)) == 0:
        options["filter_unused_linenum"] = True
    if draw(st.integers(0, 5)) == 0:
        options["default_str_storage"] = 80
    if draw(st.integers(0, 5)) == 0:
        options["default_width32"] = False
    return full.add_layout(draw, {"prog": prog, "paren_unary": "paren_unary" in switches, "options": options,
                                  "_meta": {"forms": forms, "nonliteral": nonlit, "excluded": dict(fg.g.excluded), "n_conv": fg.g.n_conv}},
                           switches, key="source_override", one_in=2)


OPTIONAL_OMITTED = {"CLS", "HSCREEN", "HCLS", "HCOLOR f", "HCIRCLE", "HELLIPSE", "HARC", "HPAINT", "HPAINT c", "HLINE rel PSET", "HLINE rel PRESET B", "HLINE rel PSET BF",
                    "HLINE abs PSET", "HLINE abs PRESET", "HSET", "ATTR", "ATTR B", "ATTR U"}


def enumerate_forms(switches=frozenset()):
    """Every form once with distinct literal operands (exhaustive over the table)."""
    stats = Stats()

    class FixedDraw:
        def __init__(self):
            self.k = 1

        def __call__(self, strategy):
            raise RuntimeError("no draws expected")

    for form in full.DEVICE_FORMS:
        fg = full.FullGen(None, switches, operand_depth=0)
        counter = [1]

        def lit():
            counter[0] += 1
            v = counter[0]
            return ["num", str(v), v]

        fg.e = lit
        fg.first_operand = lit
        fg.width_operand = lambda: ["num", "40", 40]
        fg.es = lambda: ["str", "S%d" % counter[0]]
        if form == "HPRINT n" and "hprint_string_only" in switches:
            stats.excluded["hprint_string_only"] += 1
            continue
        if form == "POKE":
            s = ["poke", ["num", "1024", 1024], ["num", "7", 7]]
        else:
            s, _ = fg.device(form)
        g = cbgen.Gen(None, switches)
        prog = build_program([s], g)
        case = {"prog": prog}
        try:
            check_case(case)
        except Violation as v:
            stats.fail(v.detail, v.case)
            return stats
        stats.case(key=["form", form], nontrivial=form in OPTIONAL_OMITTED, classes=["form_table", "form_" + form.split()[0]],
                   sample={"form": form, "source": case.get("_source", "")})
    # the speed pokes change what a later SOUND passes: every order of the two pokes (decimal and hex spellings) in front of a SOUND
    P = lambda a, v: ["poke", a, ["num", str(v), v]]
    D = lambda n: ["num", str(n), n]
    fast, slow = [D(65497), ["hex", "FFD9"]], [D(65496), ["hex", "FFD8"]]
    snd = ["sound", ["num", "100", 100], ["num", "3", 3]]
    seqs = []
    for f_ in fast:
        seqs.append([P(f_, 0), snd])
        seqs.append([snd, P(f_, 0), snd])
        for s_ in slow:
            seqs.append([P(f_, 0), P(s_, 0), snd])
            seqs.append([P(s_, 0), P(f_, 0), snd, P(s_, 1), snd])
    for s_ in slow:
        seqs.append([P(s_, 0), snd])
    for i, seq in enumerate(seqs):
        g = cbgen.Gen(None, switches)
        case = {"prog": build_program(seq, g)}
        try:
            check_case(case)
        except Violation as v:
            stats.fail(v.detail, v.case)
            return stats
        stats.case(key=["speed_sequence", i], nontrivial=True, classes=["form_table", "speed_poke_then_sound"], sample={"source": case.get("_source", "")})
    stats.exhaustive = True
    return stats


def campaign(seed, n, switches=frozenset()):
    stats = Stats()

    def body(case):
        meta = case.pop("_meta")
        if meta.get("drawn_layout"):
            stats.classes["drawn_layout"] += 1
        case = dict(case)
        check_case(case)
        triv = case.get("_trivial")
        nt = not triv and (meta["nonliteral"] or any(f in OPTIONAL_OMITTED for f in meta["forms"]))
        classes = ["form_" + f.split()[0] for f in meta["forms"]]
        if triv:
            classes.append("trivial_" + triv.split(":")[0].split(" ")[0])
        if meta["n_conv"]:
            classes.append("operand_needs_temporary")
        for k, v in meta["excluded"].items():
            stats.excluded[k] += v
        stats.case(key=[meta["forms"], case["prog"]], nontrivial=nt, classes=classes, sample={"source": case.get("_source", "")})

    core.run_hypothesis(body, cases(switches), seed=seed, max_examples=n, stats=stats)
    return stats


def plan(tier, seed, switches):
    if tier == "quick":
        return [("enumerate_forms", [dict(switches=switches)]), ("campaign", [dict(seed=seed * 100 + k, n=1000, switches=switches) for k in range(4)])]
    return [("enumerate_forms", [dict(switches=switches)]), ("campaign", [dict(seed=seed * 1000 + k, n=2200, switches=switches) for k in range(15)])]


def evidence_extra(stats):
    return {"exhaustive_part": "every device-statement form of the table is enumerated once with literal operands on every run"}
