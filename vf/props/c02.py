"""C02 - control flow of the translated program follows the source program.

Differential execution of structurally terminating control-flow programs under
all four combinations of filter_unused_linenum x initialize_vars: the sequence
of observable events (line markers and printed values), and the way the run
ends, must equal the Color BASIC reference run."""
from hypothesis import strategies as st

from vf import core, diff, sem
from vf.core import Stats, Violation
from vf.diff import Trivial
from vf.gen import full, progs

ID = "C02"
RULE = (
    "programs of nested blocks built by Hypothesis: multi-statement lines, IF forms (THEN line / statements, ELSE line / "
    "statements, IF nested in THEN and ELSE, ELSE-IF chains of length 1-3 with and without final ELSE), FOR/NEXT with STEP +-, "
    "bare NEXT, one-line and multi-line loops nested <= 3, forward GOTO, counter-guarded backward jumps, GOSUB/RETURN behind END, "
    "ON..GOTO/GOSUB with selectors 0..k+1, END/STOP inside branches; line numbering step 1/5/10/100 from 0/1/10/100; every line starts "
    "with a marker PRINT; initial values of A,B,C drawn in 0..4. Each program is translated under the four option sets. "
    "Non-trivial: the CB run made >= 1 backward jump or loop iteration and took conditional branches in both directions, or "
    "executed a GOSUB; distinct by sha1 of the AST"
)
RULE += ' Also: every ON..GOTO / ON..GOSUB list of 1-13 targets (1-40 thorough; ascending, descending, with a repeated target) is run under every selector value 0..len+1; one program in seven is large (up to 40 lines, nesting one level deeper, ON lists of up to 17 targets with reaching selectors, five-digit line numbers); loop variables are names that are prefixes of one another; ON selectors may be converted functions; one case in three in a drawn layout. A refusal of a generated program counts as a violation.'
ASSUMPTIONS = [
    "CB-3/CB-4/CB-5 and B09-3/B09-4 of DESIGN.md section 3 (IF/ELSE pairing and skipping, FOR/NEXT semantics, ON..GO fall-through)",
    "both interpreters stop after 20 000 / 60 000 statements; a source that exceeds the budget is skipped, a translation that "
    "exceeds it while the source stops is a violation",
]

OPTION_SETS = [
    {"filter_unused_linenum": f, "initialize_vars": i} for f in (False, True) for i in (False, True)
]


def used_vars(x, acc):
    if isinstance(x, list):
        if len(x) >= 2 and x[0] == "var" and isinstance(x[1], str):
            acc.add(x[1])
        if len(x) >= 2 and x[0] == "for" and isinstance(x[1], str):
            acc.add(x[1])
        for y in x:
            used_vars(y, acc)
    return acc


def complete_init(prog):
    """Make the first line assign every variable, so that the source never
    reads a variable it has not written (needed for initialize_vars=False)."""
    vs = sorted(used_vars(prog, set()))
    have = {s[1][1] for s in prog[0][1] if s[0] == "let"}
    for v in vs:
        if v not in have:
            prog[0][1].append(["let", ["var", v], ["num", "0", 0], False])
    return prog


def check_case(case):
    prog = case["prog"]
    try:
        cb = diff.run_source(prog)
    except Trivial as t:
        case["_trivial"] = t.why
        return None
    case["_cb"] = {"backward": cb.backward_jumps, "loops": cb.loop_iterations, "gosubs": cb.gosubs,
                   "both_branches": (True in cb.branch_log and False in cb.branch_log), "zero_trip": cb.zero_trip_for}
    if cb.zero_trip_for and case.get("skip_zero_trip", True):
        case["_trivial"] = "for_zero_trip (open finding)"
        return None
    for opts in case.get("option_sets", OPTION_SETS):
        try:
            src, out = diff.translate(prog, case, opts, paren_unary=case.get("paren_unary", False),
                                      source_override=case.get("source_override"))
        except Trivial as t:
            case["_trivial"] = t.why
            return None
        case["_source"] = src
        sub = dict(case, options=opts)
        sub.pop("_cb", None)
        try:
            b9 = diff.run_translation(out, sub)
            diff.compare(cb, b9, sub, what="sequence of observable statements (options %s)" % opts)
        except Trivial as t:
            case["_trivial"] = t.why
            return None
        if b9.uninit_reads:
            raise Violation("translation reads %s before any assignment although the source assigns every variable first (options %s)"
                            % (sorted(set(b9.uninit_reads))[:4], opts), sub)
    return None


@st.composite
def cases(draw, switches):
    c = draw(progs.control_programs(switches))
    complete_init(c["prog"])
    c["paren_unary"] = "paren_unary" in switches
    return full.add_layout(draw, c, switches, key="source_override")


def campaign(seed, n, switches=frozenset()):
    stats = Stats()

    def body(case):
        meta = case.pop("_meta")
        if meta.get("drawn_layout"):
            stats.classes["drawn_layout"] += 1
        case = dict(case)
        check_case(case)
        triv = case.get("_trivial")
        info = case.get("_cb", {})
        nt = (not triv) and (((info.get("backward") or info.get("loops")) and info.get("both_branches")) or info.get("gosubs"))
        classes = ["feature_" + f for f in meta["features"]]
        if triv:
            classes.append("trivial_" + triv.split(":")[0].split(" ")[0])
        for k, v in meta["excluded"].items():
            stats.excluded[k] += v
        stats.case(key=case["prog"], nontrivial=bool(nt), classes=classes, sample={"source": case.get("_source", "")})

    core.run_hypothesis(body, cases(switches), seed=seed, max_examples=n, stats=stats)
    return stats


def enumerate_on_lists(part, nparts, max_len=17, switches=frozenset()):
    """Every ON..GOTO / ON..GOSUB list of 1..max_len targets (distinct, ascending / descending / with a repeated target) under every selector
    value 0..len+1: the k-th value reaches the k-th target, values outside the list fall through (complete enumeration)."""
    stats = Stats()
    k = 0
    for n in range(1, max_len + 1):
        for order in ("asc", "desc", "repeat"):
            for word in ("GOTO", "GOSUB"):
                for sel in range(0, n + 2):
                    k += 1
                    if k % nparts != part:
                        continue
                    lines = list(range(100, 100 + 10 * n, 10))
                    tg = list(lines)
                    if order == "desc":
                        tg.reverse()
                    elif order == "repeat" and n >= 2:
                        tg[n // 2] = tg[0]
                    mark = lambda x: ["print", [["e", ["str", "L%d" % x]], ["s", ";"]]]
                    prog = [[10, [["let", ["var", "A"], ["num", str(sel), sel], False]]],
                            [20, [["on", ["var", "A"], word, tg], mark(20)]],
                            [30, [["end"]]]]
                    for ln in lines:
                        prog.append([ln, [mark(ln), ["return"] if word == "GOSUB" else ["end"]]])
                    case = {"prog": prog, "option_sets": [OPTION_SETS[0], OPTION_SETS[-1]]}
                    try:
                        check_case(case)
                    except Violation as v:
                        stats.fail(v.detail, v.case)
                        return stats
                    stats.case(key=[n, order, word, sel], nontrivial=n >= 2 and not case.get("_trivial"), classes=["on_list_len_%d" % n, "on_list_" + order],
                               sample={"source": case.get("_source", "")})
    return stats


def plan(tier, seed, switches):
    if tier == "quick":
        return [("campaign", [dict(seed=seed * 100 + k, n=150, switches=switches) for k in range(4)]),
                ("enumerate_on_lists", [dict(part=k, nparts=8, max_len=13, switches=switches) for k in range(8)])]
    return [("campaign", [dict(seed=seed * 1000 + k, n=2500, switches=switches) for k in range(16)]),
            ("enumerate_on_lists", [dict(part=k, nparts=16, max_len=40, switches=switches) for k in range(16)])]


def evidence_extra(stats):
    return {"exhaustive_part": "every ON..GOTO / ON..GOSUB list of 1-13 targets (1-40 in the thorough tier; ascending, descending, with a repeated target) is run under every selector value 0..len+1 on every run"}
