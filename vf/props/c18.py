"""C18 - decoder output is a complete image file of the advertised size.

Well-formed files x option values x {file, stream}: the output must parse
(P6 / P5 / PNG) with the width and height the format or the options dictate and
exactly width x height samples (PNG: every index inside the palette); `-s N`
must equal decoding the file minus its first N bytes; using the default
streams must give the same bytes as using files."""
import os
import subprocess
import sys

from hypothesis import strategies as st

from vf import core, tool
from vf.core import Stats, Violation
from vf.gen import images as gi
from vf.img import check as ic
from vf.img import model, run

ID = "C18"
RULE = (
    "specs drawn by Hypothesis: HRS -w 1..700 / -r / -s 0..40, MAX -w / -r / -s / length field / -newsroom in all nine pixel "
    "modes, PIX sides, fixed-size MGE / CM3 / RAT / VEF in raw and compressed forms; each decoded via files and, where the "
    "tool offers default streams, via in-process stream objects with a .buffer (real OS pipes in the thorough tier). "
    "Non-trivial: a non-default option is used or a stream variant is compared; distinct by sha1 of (spec, variant)"
)
RULE += " Also: standard streams named explicitly as '-', a named output file that exists already and is longer than the image, real pipes with a slow producer (second half of the input written only after the decoder drained the first), payloads of exactly 2^k bytes."
ASSUMPTIONS = [
    "a width that is not a multiple of the pixels per byte has no defined last column in the file format; for such widths only "
    "header-vs-sample-count consistency is judged, not pixel content",
    "stream variants are substituted in-process (sys.stdin/sys.stdout objects exposing .buffer); the thorough tier adds real pipes",
]

STREAM_IN = {"hrs", "max", "mge", "cm3", "rat"}
STREAM_OUT = {"hrs", "max", "mge", "cm3", "rat", "pix"}


def whole_pixels(spec):
    if spec["fmt"] == "hrs":
        return spec.get("w", 320) % 2 == 0
    if spec["fmt"] == "max" and not spec.get("newsroom"):
        return spec.get("cols", 256) % 8 == 0
    return True


def check_complete(spec, case, stdin=False, stdout=False, tmpdir=None):
    built = model.build(spec)
    res = run.run_decoder(spec["fmt"], built.data, built.argv, stdin=stdin, stdout=stdout, tmpdir=tmpdir)
    if res.status != "ok" or res.out is None:
        raise Violation("decoder did not accept a well-formed %s file (%s %s)" % (spec["fmt"], res.status, res.why), case)
    parsed = run.read_output(spec["fmt"], res.out)
    if parsed.get("width") is not None and (parsed.get("width"), parsed.get("height")) != (built.width, built.height):
        raise Violation("output announces %sx%s, the format/options dictate %dx%d" % (parsed.get("width"), parsed.get("height"), built.width, built.height), case)
    if not parsed.get("complete"):
        raise Violation("output is not a complete image: %s" % parsed.get("problem"), case)
    if whole_pixels(spec) and parsed["samples"] != built.samples:
        raise Violation("decoded image differs: " + ic.describe_diff(built, parsed["samples"]), case)
    return built, res


def check_case(case):
    spec = case["spec"]
    variant = case.get("variant", "file")
    fmt = spec["fmt"]
    with tool.scratch_dir() as d:
        built, res = check_complete(spec, case, tmpdir=d)
        if variant == "skip":
            n = spec.get("skip", 0)
            s2 = dict(spec)
            b2 = model.build(s2)
            argv2 = []
            it = iter(b2.argv)
            for a in it:  # drop "-s N"
                if a == "-s":
                    next(it)
                else:
                    argv2.append(a)
            r2 = run.run_decoder(fmt, b2.data[n:], argv2, tmpdir=d)
            if r2.status != "ok" or r2.out != res.out:
                raise Violation("-s %d differs from decoding the file without its first %d bytes" % (n, n), case)
        elif variant == "streams":
            combos = []
            # (stdin, file) cannot be expressed: a single positional argument is the input
            if fmt in STREAM_OUT:
                combos.append((False, True))
            if fmt in STREAM_IN and fmt in STREAM_OUT:
                combos.append((True, True))
            # '-' as the explicit name of a standard stream (argparse's FileType convention, which every stream-capable decoder uses)
            if fmt in STREAM_OUT:
                combos.append((False, "dash"))
            if fmt in STREAM_IN:
                combos.append(("dash", False))
            if fmt in STREAM_IN and fmt in STREAM_OUT:
                combos.append(("dash", "dash"))
            for si, so in combos:
                r2 = run.run_decoder(fmt, built.data, built.argv, stdin=si, stdout=so, tmpdir=d)
                if r2.status != "ok":
                    raise Violation("stream variant stdin=%s stdout=%s failed: %s" % (si, so, r2.why), case)
                if r2.out != res.out:
                    raise Violation("stream variant stdin=%s stdout=%s wrote different bytes than the file variant (%s vs %s bytes)"
                                    % (si, so, None if r2.out is None else len(r2.out), len(res.out)), case)
        elif variant == "preexisting":
            # the named output file exists already and is longer than the image: the result is still exactly the image
            r2 = run.run_decoder(fmt, built.data, built.argv, tmpdir=d, prefill=len(res.out) + 4096)
            if r2.status != "ok" or r2.out != res.out:
                raise Violation("decoding into an existing, longer output file gives %s bytes (%s), a fresh file %d bytes"
                                % (None if r2.out is None else len(r2.out), r2.status, len(res.out)), case)
        elif variant == "pipes":
            modname = model.DECODER_MODULE[fmt]
            argv = [sys.executable, "-c", "import sys; from coco.%s import start; start(sys.argv[1:])" % modname] + list(built.argv)
            if fmt not in STREAM_IN:
                p = os.path.join(d, "in." + fmt)
                with open(p, "wb") as f:
                    f.write(built.data)
                argv.append(p)
                inp = b""
            else:
                inp = built.data
            if inp and case.get("slow_pipe") is not None and case["slow_pipe"] % 3 == 0:
                # standard input is a regular file that an earlier reader has already consumed a part of (shell: { head -c K >/dev/null; tool; } < file):
                # the decoder must go on from the current position
                k_ = 1 + case["slow_pipe"] % 97
                cp = os.path.join(d, "container.bin")
                with open(cp, "wb") as f:
                    f.write(bytes((7 * i + 3) & 255 for i in range(k_)) + inp)
                fd = os.open(cp, os.O_RDONLY)
                try:
                    os.lseek(fd, k_, os.SEEK_SET)
                    pr = subprocess.run(argv, stdin=fd, stdout=subprocess.PIPE, stderr=subprocess.PIPE, timeout=120)
                finally:
                    os.close(fd)
            elif inp and case.get("slow_pipe") is not None:
                # the producer delivers the input in two pieces, the second only after the decoder has taken the first out of the pipe:
                # a reader that treats a short read as the end (or as a full one) decodes something else; timing can only hide that, not fake it
                import fcntl, struct, termios, time, threading
                cut = max(1, min(len(inp) - 1, case["slow_pipe"] % len(inp)))
                pr_ = subprocess.Popen(argv, stdin=subprocess.PIPE, stdout=subprocess.PIPE, stderr=subprocess.PIPE)
                outs = {}
                t_out = threading.Thread(target=lambda: outs.update(o=pr_.stdout.read(), e=pr_.stderr.read()))
                t_out.start()
                pr_.stdin.write(inp[:cut])
                pr_.stdin.flush()
                t0 = time.time()
                while time.time() - t0 < 5:
                    pending = struct.unpack("i", fcntl.ioctl(pr_.stdin.fileno(), termios.FIONREAD, struct.pack("i", 0)))[0]
                    if pending == 0:
                        break
                    time.sleep(0.01)
                time.sleep(0.05)
                try:
                    pr_.stdin.write(inp[cut:])
                    pr_.stdin.close()
                except BrokenPipeError:
                    pass
                t_out.join(120)
                pr_.wait(120)

                class _PR:
                    returncode, stdout, stderr = pr_.returncode, outs.get("o", b""), outs.get("e", b"")
                pr = _PR
            else:
                pr = subprocess.run(argv, input=inp, stdout=subprocess.PIPE, stderr=subprocess.PIPE, timeout=120)
            if pr.returncode != 0:
                raise Violation("decoder over real pipes exited with %d: %s" % (pr.returncode, pr.stderr[-300:]), case)
            if pr.stdout != res.out:
                raise Violation("decoder over real pipes wrote different bytes than with files", case)
    return None


@st.composite
def cases(draw, fmts, switches, force_skip_half=False):
    fmt = draw(st.sampled_from(fmts))
    force_skip = force_skip_half and draw(st.booleans())
    if fmt == "hrs":
        spec = draw(gi.hrs_spec(options=True, even_width="hrs_even_width" in switches, small=draw(st.integers(0, 9)) > 0))
        if force_skip and "skip" not in spec:
            spec["skip"] = max(1, draw(gi.skip_counts))
    elif fmt == "max":
        spec = draw(gi.max_spec(options=True, width_mult8="max_width_mult8" in switches))
        if force_skip and "skip" not in spec:
            spec["skip"] = max(1, draw(gi.skip_counts))
    elif fmt == "pix":
        spec = draw(gi.pix_spec())
    elif fmt == "mge":
        spec = draw(gi.mge_spec())
    elif fmt == "cm3":
        spec = draw(gi.cm3_spec())
    elif fmt == "rat":
        spec = draw(gi.rat_spec(low_nibble_limit=8))  # pixel content of RAT is C17's business (open finding there)
    else:
        spec = draw(gi.vef_spec())
    variants = ["file"]
    if "skip" in spec:
        variants.append("skip")
    if fmt in STREAM_OUT:
        variants.append("streams")
    variants.append("preexisting")
    # for the real-pipe runs: where the input is cut in two for a slow producer (taken modulo its length; None = delivered at once)
    return {"spec": spec, "variant": draw(st.sampled_from(variants)), "slow_pipe": draw(st.one_of(st.none(), st.integers(1, 5000)))}


def campaign(seed, n, fmts, switches=frozenset(), pipes=False):
    stats = Stats()

    def body(case):
        spec = case["spec"]
        if pipes and spec["fmt"] in STREAM_OUT:
            case = dict(case, variant="pipes")
        nondefault = any(k in spec for k in ("w", "h", "skip", "cols", "rows_opt", "newsroom")) or spec.get("mode", "bw") != "bw"
        classes = ["fmt_" + spec["fmt"], "variant_" + case["variant"]]
        if not whole_pixels(spec):
            classes.append("width_not_multiple_of_pixels_per_byte")
        if spec["fmt"] == "hrs" and "hrs_even_width" in switches:
            stats.excluded["hrs_even_width"] += 1
        if spec["fmt"] == "max" and "max_width_mult8" in switches:
            stats.excluded["max_width_mult8"] += 1
        stats.case(key=case, nontrivial=nondefault or case["variant"] != "file", classes=classes,
                   sample={"variant": case["variant"], "spec": {k: v for k, v in spec.items() if k not in ("title", "palette")}})
        check_case(case)

    core.run_hypothesis(body, cases(fmts, switches, force_skip_half=pipes), seed=seed, max_examples=n, stats=stats)
    return stats


def plan(tier, seed, switches):
    if tier == "quick":
        return [("campaign", [dict(seed=seed * 100 + 1, n=450, fmts=["hrs", "max", "pix"], switches=switches)]
                 + [dict(seed=seed * 100 + 2 + i, n=12, fmts=[f], switches=switches) for i, f in enumerate(["mge", "cm3", "rat", "vef"])]
                 + [dict(seed=seed * 100 + 9 + k, n=16, fmts=["hrs", "max", "hrs", "max", "pix", "rat"], switches=switches, pipes=True) for k in range(3)])]
    return [("campaign", [dict(seed=seed * 1000 + k, n=3500, fmts=["hrs", "max", "pix"], switches=switches) for k in range(8)]
             + [dict(seed=seed * 1000 + 10 + i, n=400, fmts=[f], switches=switches) for i, f in enumerate(["mge", "cm3", "rat", "vef"])]
             + [dict(seed=seed * 1000 + 20 + k, n=150, fmts=["hrs", "max", "pix", "rat", "mge", "cm3"], switches=switches, pipes=True) for k in range(4)])]
