"""C08 - source layout does not change the translation.

Metamorphic: one AST is rendered in its canonical layout and in 6-10 drawn
layouts (0-2 blanks at every token boundary where Color BASIC and the tool's
documentation allow it, `?` for PRINT, empty lines, LF / CR / CRLF, trailing
NUL, blanks inside numeric literals); all spellings must be rejected alike or
give byte-identical output.  Content clause: the string literals, DATA items
and comment texts of the AST are found byte for byte in the output."""
from collections import Counter

from hypothesis import strategies as st

from vf import core, tool
from vf.b09 import lex
from vf.cb import render
from vf.core import Stats, Violation
from vf.gen import full

ID = "C08"
RULE = (
    "full-grammar programs built by Hypothesis, each rendered canonically and in 6-10 layouts drawn boundary by boundary (0-2 blanks; at least one "
    "where two alphanumeric tokens meet), '?'/PRINT, LF/CR/CRLF, empty lines, trailing NUL, final line end, blanks around E / after &, H inside "
    "numeric literals. Non-trivial: >= 3 statement kinds and the layouts differ from the canonical one in >= 5 places; distinct by sha1 of "
    "(AST, layout texts)"
)
RULE += " Statements whose text ends in a chosen token class (every literal spelling, hex, variable, call) are placed before ':', ELSE, a comment and the line end; layouts also draw blanks at the line end; ELSE IF chains of up to three arms; comment lines of up to 244 characters."
ASSUMPTIONS = [
    "layout freedom is limited to what Color BASIC and the README allow: no blanks between digits, keywords and identifiers stay separated, "
    "blanks inside string literals / DATA items / comments are content",
]


def ast_content(prog):
    """String literals, DATA string items and comment texts of the AST."""
    lits = []
    comments = []

    def walk(x):
        if isinstance(x, list) and x:
            if x[0] == "str" and len(x) == 2 and isinstance(x[1], str):
                lits.append(x[1])
            elif x[0] == "data":
                for it in x[1]:
                    if it[0] in ("q", "u"):
                        lits.append(it[1].lstrip(" ") if it[0] == "u" else it[1])
                return
            elif x[0] == "rem":
                comments.append(x[1])
                return
            elif x[0] == "input" and x[1] is not None:
                lits.append(("prompt", x[1], x[3]))
            elif x[0] == "poke" and len(x) == 3 and ((x[1][0] == "num" and x[1][2] in (65496, 65497)) or (x[1][0] == "hex" and x[1][1] in ("FFD8", "FFD9"))):
                return  # a speed poke: the value operand is documented to be ignored, so its literals need not survive
            for y in x:
                walk(y)

    walk(prog)
    return lits, comments


def output_content(out):
    lits = Counter()
    comments = []
    for raw in out.split("\n"):
        try:
            toks = lex.tokenize_line(raw)
        except lex.LexError:
            continue
        for t in toks:
            if t.kind == "str":
                lits[t.text[1:-1]] += 1
            elif t.kind == "comment":
                comments.append(t.text)
    return lits, comments


def check_content(prog, out_text, case, with_comments=True):
    """String literals, DATA string items and comment texts of the AST are found byte for byte in the emitted text."""
    lits, comments = ast_content(prog)
    olits, ocomments = output_content(out_text)
    need = Counter()
    for l in lits:
        if isinstance(l, tuple):
            need[l[1] if l[2] else l[1] + "? "] += 1
        else:
            need[l] += 1
    for text, n in need.items():
        if olits[text] < n:
            raise Violation("string literal / DATA item %r of the source occurs %d time(s) in the output, %d expected (blanks inside literals are content)"
                            % (text, olits[text], n), case)
    if not with_comments:
        return
    joined = "\n".join(ocomments)
    for c in comments:
        if c not in joined:
            raise Violation("comment text %r of the source is not preserved in the output" % c, case)


def check_case(case):
    opts = dict(case.get("options", {}))
    results = []
    for src in case["sources"]:
        results.append(tool.try_convert(src, **opts))
    ref = results[0]
    case["_status"] = ref[0]
    for i, r in enumerate(results[1:], 1):
        if (r[0] == "ok") != (ref[0] == "ok"):
            raise Violation("layout %d is %s while the canonical layout is %s" % (i, "converted" if r[0] == "ok" else "rejected (%s)" % r[1],
                                                                                   "converted" if ref[0] == "ok" else "rejected (%s)" % ref[1]),
                            {"sources": [case["sources"][0], case["sources"][i]], "options": opts})
        if r[0] == "ok" and r[1] != ref[1]:
            raise Violation("layout %d converts to different output than the canonical layout" % i,
                            {"sources": [case["sources"][0], case["sources"][i]], "options": opts})
    if ref[0] == "ok" and "prog" in case:
        check_content(case["prog"], ref[1], {"sources": case["sources"][:1], "prog": case["prog"], "options": opts})
    return None


@st.composite
def cases(draw, switches):
    c = draw(full.full_programs(switches, max_lines=6, operand_depth=2))
    pu = "paren_unary" in switches
    sources = [render.render(c["prog"], paren_unary=pu)]
    changes = []
    for _ in range(draw(st.integers(6, 10))):
        L = render.DrawnLayout(draw, st)
        sources.append(render.render(c["prog"], layout=L, paren_unary=pu, canonical_clear="clear_canonical_layout" in switches))
        changes.append(L.changes)
    c["sources"] = sources
    c["options"] = {"initialize_vars": draw(st.booleans())}
    c["_meta"]["changes"] = min(changes)
    return c


def campaign(seed, n, switches=frozenset()):
    stats = Stats()

    def body(case):
        meta = case.pop("_meta")
        case = dict(case)
        check_case(case)
        nt = len(meta["kinds"]) >= 3 and meta["changes"] >= 5
        for k, v in meta["excluded"].items():
            stats.excluded[k] += v
        stats.case(key=case["sources"], nontrivial=nt, classes=["status_" + case["_status"], "layouts_%d" % (len(case["sources"]) - 1)],
                   sample={"canonical": case["sources"][0], "one_layout": case["sources"][1]})
        stats.classes["layout_conversions"] += len(case["sources"])

    core.run_hypothesis(body, cases(switches), seed=seed, max_examples=n, stats=stats)
    return stats


def plan(tier, seed, switches):
    if tier == "quick":
        return [("campaign", [dict(seed=seed * 100 + k, n=100, switches=switches) for k in range(4)])]
    return [("campaign", [dict(seed=seed * 1000 + k, n=1600, switches=switches) for k in range(16)])]
