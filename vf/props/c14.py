"""C14 - every emitted runtime call matches the declared interface of its procedure.

Interfaces (name -> ordered parameter kinds string / numeric / record type) are
parsed from the current ecb.b09 at check time.  Every RUN in the parsed output
of generated programs - and, once per run, every RUN between library
procedures - must name a defined procedure (or an OS-9 system module), pass as
many arguments as there are parameters and match their kinds; the record TYPE
lines of the prologue are compared field by field with the library's."""
from hypothesis import strategies as st

from vf import core, tool
from vf.b09 import lib, parse
from vf.cb import render
from vf.core import Stats, Violation
from vf.gen import full

ID = "C14"
RULE = (
    "full-grammar programs built by Hypothesis with emphasis on constructs that produce RUN calls (every device-statement form and presence "
    "pattern, convertible functions at depth <= 2 in operands, INPUT wrappers, READ with empty DATA items, PRINT of numeric and string "
    "items, HBUFF prologue) with operands that are literals, variables, array elements, expressions and nested convertible functions; plus one "
    "pass over every RUN inside ecb.b09. Non-trivial: a RUN with >= 1 non-literal argument; distinct by (procedure, argument kind vector, "
    "argument shape classes)"
)
RULE += ' Also: the statement templates of C07 with operands that need temporaries, in nine block contexts (complete enumeration); declared string sizes across every library-internal hand-over of a string variable.'
ASSUMPTIONS = [
    "argument kinds are inferred from literals, '$' suffixes, function result kinds and the output's own DIM/TYPE lines; BASIC09 passes REAL/INTEGER/BYTE "
    "interchangeably only by value semantics, so only the string / numeric / record distinction is judged",
    "OS-9 system modules gfx, gfx2, syscall, inkey have no declared interface here and are accepted with any arguments",
]


def shape(e):
    k = e[0]
    if k in ("num", "hex", "str"):
        return "lit"
    if k == "var":
        return "tmp" if e[1].lower().startswith("tmp_") else ("rec" if "." in e[1] else "var")
    if k == "idx":
        return "elem"
    return "expr"


def check_runs(proc, libprocs, case, where, stats=None):
    for callee, args, lineno in proc.runs:
        if callee in lib.SYSTEM_MODULES:
            continue
        lp = libprocs.get(callee)
        if lp is None:
            raise Violation("%s: RUN %s names no procedure of the bundled library" % (where, callee), case)
        if len(args) != len(lp.params):
            raise Violation("%s: RUN %s passes %d argument(s), the procedure declares %d parameter(s) (%s)"
                            % (where, callee, len(args), len(lp.params), ", ".join(n for n, _ in lp.params)), case)
        kinds = []
        for a, (pn, pk) in zip(args, lp.params):
            ak = lib.expr_kind(a, proc)
            kinds.append(ak)
            if ak is None:
                continue
            if ak == "b":
                ak = "n_bool"
            if pk.startswith("r:"):
                if ak != pk:
                    raise Violation("%s: RUN %s passes a %s value for record parameter %s: %s" % (where, callee, ak, pn, pk[2:]), case)
            elif ak != pk:
                raise Violation("%s: RUN %s passes a %s argument for %s parameter %s" % (where, callee, {"s": "string", "n": "numeric"}.get(ak, ak), {"s": "string", "n": "numeric"}[pk], pn), case)
        if stats is not None:
            nt = any(shape(a) != "lit" for a in args)
            stats.nontrivial.add(core.digest([callee, kinds, [shape(a) for a in args]])) if nt else None
            stats.classes["run_" + callee] += 1


def check_types(user, libprocs, case):
    for tname, fields in user.types.items():
        for lp in libprocs.values():
            if tname in lp.types and any(k == "r:" + tname for _, k in lp.params):
                if lp.types[tname] != fields:
                    raise Violation("record type %s of the program prologue differs from the declaration in library procedure %s: %r vs %r"
                                    % (tname, lp.name, fields[:4], lp.types[tname][:4]), case)


def check_case(case):
    libprocs = lib.library()
    if case.get("library_pass"):
        check_library_string_sizes(case)
        for lp in libprocs.values():
            check_runs(lp, libprocs, case, "library procedure %s" % lp.name)
        return None
    if "source" in case:
        src = case["source"]
    else:
        src = render.render(case["prog"], paren_unary=case.get("paren_unary", False))
    case["_source"] = src
    status, out = tool.try_convert(src, **case.get("options", {}))
    case["_status"] = status
    if status != "ok":
        return None
    try:
        procs, _ = lib.scan(out)
    except parse.B09SyntaxError:
        case["_status"] = "unparsable"
        return None
    user = procs[-1]
    check_runs(user, libprocs, case, "program", case.get("_stats"))
    check_types(user, libprocs, case)
    return None


@st.composite
def cases(draw, switches):
    c = draw(full.full_programs(switches, max_lines=6, operand_depth=2, temp_bias=draw(st.sampled_from([0, 3, 6]))))
    c["options"] = {"initialize_vars": draw(st.booleans())}
    if draw(st.integers(0, 3)) == 0:
        c["options"]["default_str_storage"] = 80
    c["paren_unary"] = "paren_unary" in switches
    return full.add_layout(draw, c, switches)


def campaign(seed, n, switches=frozenset()):
    stats = Stats()

    def body(case):
        meta = case.pop("_meta")
        if meta.get("drawn_layout"):
            stats.classes["drawn_layout"] += 1
        case = dict(case)
        case["_stats"] = stats
        try:
            check_case(case)
        finally:
            case.pop("_stats", None)
        for k, v in meta["excluded"].items():
            stats.excluded[k] += v
        stats.evaluations += 1
        stats.classes["status_" + case.get("_status", "?")] += 1
        if len(stats.samples) < 4 and case.get("_status") == "ok":
            stats.samples.append({"source": case["_source"]})

    core.run_hypothesis(body, cases(switches), seed=seed, max_examples=n, stats=stats)
    return stats


def string_size_table(procs):
    """procedure -> {string name: declared size (None = BASIC09's default 32, 9999 = the library's size placeholder)}"""
    sizes = {}
    for p in procs:
        d = {}
        for ln in p.lines:
            for st_ in ln.stmts:
                if st_.kind in ("dim", "param"):
                    for g in st_.groups:
                        for nm, dims in g["names"]:
                            typ = (g["type"] or "").upper()
                            if typ == "STRING" or (not typ and nm.endswith("$")):
                                d[nm.upper()] = g.get("size")
        sizes[p.name.lower()] = d
    return sizes


def check_library_string_sizes(case):
    """BASIC09 passes parameters by reference and unchecked: a string handed from one library procedure to another must be declared with the
    same size on both sides (in particular, with the size placeholder on both sides), or the callee sees a truncated string."""
    text = tool.ecb_text().replace("\r\n", "\n").replace("\r", "\n").replace("<<>>", "[9999]")
    procs, _ = lib.scan(text)
    sizes = string_size_table(procs)
    byname = {p.name.lower(): p for p in procs if p.name}
    n = 0
    for p in procs:
        for callee, args, lineno in p.runs:
            cp = byname.get(callee)
            if cp is None:
                continue
            for (pn, kind), a in zip(cp.params, args):
                if kind == "s" and a[0] == "var" and a[1].upper() in sizes.get(p.name.lower(), {}):
                    n += 1
                    sa, sc = sizes[p.name.lower()][a[1].upper()], sizes[callee].get(pn.upper())
                    if sa != sc:
                        show = lambda z: {None: "STRING (32 bytes)", 9999: "STRING<<>> (the requested size)"}.get(z, "STRING[%s]" % z)
                        raise Violation("library procedure %s passes its %s %s to parameter %s of %s, which is declared %s"
                                        % (p.name, show(sa), a[1], pn, callee, show(sc)), case)
    return n


def library_pass(switches=frozenset()):
    stats = Stats()
    libprocs = lib.library()
    case = {"library_pass": True}
    try:
        stats.classes["library_string_hand_overs"] = check_library_string_sizes(case)
    except Violation as v:
        stats.fail(v.detail, case)
        return stats
    for lp in libprocs.values():
        try:
            check_runs(lp, libprocs, case, "library procedure %s" % lp.name, stats)
        except Violation as v:
            stats.fail(v.detail, case)
            break
        stats.evaluations += 1
    stats.classes["library_procedures"] = len(libprocs)
    return stats


def enumerate_contexts(part, nparts, switches=frozenset()):
    """Every statement template of the grammar in every block context (the table of C07 / C10), here with operands that need temporaries
    (INT(A), STR$(A)): every RUN the tool emits for them matches the declared interface (complete enumeration)."""
    from vf.props import c07, c10

    stats = Stats()
    stmts = [t.format(n="INT(A)", s="STR$(A)") for t in c10.NUM_SLOTS] + [t.format(n="INT(A)", s="STR$(A)") for t in c10.STR_SLOTS] + c07.EXTRA_STATEMENTS
    k = 0
    for st_ in stmts:
        if st_.startswith(("INPUT ZQ", "READ ZQ", "ZN=VARPTR")) and "no_convertible_in_read_input_subscripts" in switches:
            stats.excluded["no_convertible_in_read_input_subscripts"] += 1
            continue
        if st_.startswith("HPRINT(1,1),") is False and st_.startswith("HPRINT") and "hprint_string_only" in switches:
            pass
        for cname, ctx in c07.CONTEXTS:
            ends_line = st_.startswith(("REM", "'")) or "DATA" in st_
            has_if = st_.startswith("IF") or "NEXT" in st_ or "FOR " in st_
            if cname != "plain" and (ends_line and cname in ("after_colon", "if_then", "elseif_arm", "for_body")):
                continue
            if has_if and cname not in ("plain", "after_colon"):
                continue
            if has_if and st_.startswith("IF") and "ELSE" in st_ and "no_convertible_in_ifelse_cond" in switches:
                continue
            k += 1
            if k % nparts != part:
                continue
            case = {"source": ctx.format(s=st_), "options": {"initialize_vars": True}}
            try:
                check_case(case)
            except Violation as v:
                stats.fail(v.detail, case)
                return stats
            stats.evaluations += 1
            stats.classes["context_" + cname] += 1
            stats.classes["status_" + case.get("_status", "?")] += 1
            if case.get("_status") == "ok":
                stats.nontrivial.add(core.digest(case["source"]))
    return stats


def plan(tier, seed, switches):
    if tier == "quick":
        return [("campaign", [dict(seed=seed * 100 + k, n=350, switches=switches) for k in range(4)]), ("library_pass", [dict(switches=switches)]),
                ("enumerate_contexts", [dict(part=k, nparts=6, switches=switches) for k in range(6)])]
    return [("campaign", [dict(seed=seed * 1000 + k, n=3000, switches=switches) for k in range(15)]), ("library_pass", [dict(switches=switches)]),
            ("enumerate_contexts", [dict(part=k, nparts=6, switches=switches) for k in range(6)])]
