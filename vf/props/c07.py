"""C07 - accepted programs yield structurally well-formed BASIC09 text.

Grammar-directed random programs over all statement kinds (and the bundled
examples) are converted under generated option sets; the output must be
accepted by the strict BASIC09 parser of vf/b09/parse.py: complete
statements separated by backslashes, balanced and properly nested blocks,
every operator and call with all operands, closed literals and comments, no
reserved word used as a variable, no internal object text."""
from hypothesis import strategies as st

from vf import core, tool
from vf.b09 import parse
from vf.cb import render
from vf.core import Stats, Violation
from vf.gen import full

ID = "C07"
RULE = (
    "full-grammar programs built by Hypothesis (all statement kinds incl. every device-statement form and presence pattern, "
    "IF forms, FOR/NEXT lexically nested, DATA/READ/INPUT/DIM/PRINT variants, REM, ON ERR/BRK) with operand expressions of depth "
    "<= 2, plus the bundled example programs, each converted under a drawn option set (incl. dependencies, where the library text is "
    "parsed too). Non-trivial: the output has >= 1 block construct and >= 1 hoisted call, or the program uses >= 5 statement kinds; "
    "distinct by sha1 of (AST, options)"
)
RULE += ' Also (complete enumeration on every run): every statement template of the grammar - 144 operand-position templates and 25 operand-free statements, each with a plain operand, with an operand that needs a temporary and with one that starts with a unary minus - in nine block contexts (alone, between statements, THEN, THEN-before-ELSE, ELSE, ELSE-IF arm, last ELSE, FOR body, IF inside FOR) under two option sets.'
ASSUMPTIONS = [
    "statement grammar, reserved-word list and block rules of BASIC09 as encoded in vf/b09/parse.py (permissive about types, case, spacing, ':=' vs '=')",
]

ARTEFACTS = ("<Node", "object at 0x", "RegexNode", "<coco.", "<class ", "None")


@st.composite
def option_set(draw):
    o = {}
    for k in ("filter_unused_linenum", "initialize_vars", "add_standard_prefix", "add_suffix"):
        if draw(st.booleans()):
            o[k] = draw(st.booleans())
    if draw(st.booleans()):
        o["default_str_storage"] = draw(st.sampled_from([32, 33, 80, 255]))
    if draw(st.integers(0, 3)) == 0:
        o["output_dependencies"] = True
        o["procname"] = draw(st.sampled_from(["prog", "a_b", "x1"]))
    if draw(st.integers(0, 3)) == 0:
        o["default_width32"] = False
    if draw(st.integers(0, 5)) == 0:
        o["skip_procedure_headers"] = True
    if draw(st.integers(0, 5)) == 0:
        o["string_configs"] = draw(st.dictionaries(st.sampled_from(["A$", "S$", "NM$", "DA$", "DB$()", "P$()"]), st.sampled_from([1, 40, 300]), min_size=1, max_size=2))
    return o


def strip_user_text(out_line):
    """Remove string literals and comments before looking for artefacts."""
    res = []
    i = 0
    n = len(out_line)
    while i < n:
        c = out_line[i]
        if c == '"':
            j = out_line.find('"', i + 1)
            if j < 0:
                break
            i = j + 1
            continue
        if out_line.startswith("(*", i):
            break
        res.append(c)
        i += 1
    return "".join(res)


def check_output(out, case):
    try:
        lines = parse.parse_program(out)
        parse.check_structure(lines)
    except parse.B09SyntaxError as e:
        raise Violation("output is not well-formed BASIC09: %s" % e, case)
    for no, raw in enumerate(out.split("\n"), 1):
        bare = strip_user_text(raw)
        for a in ARTEFACTS:
            if a in bare:
                raise Violation("internal object text %r leaked into output line %d: %r" % (a, no, raw[:120]), case)
    return lines


def check_case(case):
    opts = dict(case.get("options", {}))
    if "source" in case:
        src = case["source"]
    else:
        src = render.render(case["prog"], paren_unary=case.get("paren_unary", False))
    case["_source"] = src
    status, out = tool.try_convert(src, **opts)
    case["_status"] = status
    if status != "ok":
        return None
    lines = check_output(out, case)
    nblocks = sum(1 for ln in lines for s in ln.stmts if s.kind in ("if", "loop", "for", "while"))
    nhoist = sum(1 for ln in lines if len(ln.stmts) > 1 and any(s.kind == "run" for s in ln.stmts[:-1]))
    case["_shape"] = (nblocks, nhoist)
    return None


@st.composite
def cases(draw, switches):
    c = draw(full.full_programs(switches, max_lines=8, operand_depth=2, temp_bias=draw(st.sampled_from([0, 0, 4, 8]))))
    c["options"] = draw(option_set())
    c["paren_unary"] = "paren_unary" in switches
    return full.add_layout(draw, c, switches)


def campaign(seed, n, switches=frozenset()):
    stats = Stats()

    def body(case):
        meta = case.pop("_meta")
        if meta.get("drawn_layout"):
            stats.classes["drawn_layout"] += 1
        case = dict(case)
        check_case(case)
        nb, nh = case.get("_shape", (0, 0))
        nt = case.get("_status") == "ok" and ((nb >= 1 and nh >= 1) or len(meta["kinds"]) >= 5)
        classes = ["status_" + case.get("_status", "?")] + ["kind_" + k for k in meta["kinds"]]
        for k, v in meta["excluded"].items():
            stats.excluded[k] += v
        stats.case(key=[case["prog"], case["options"]], nontrivial=nt, classes=classes,
                   sample={"source": case["_source"], "options": case["options"]})

    core.run_hypothesis(body, cases(switches), seed=seed, max_examples=n, stats=stats)
    return stats


def examples(switches=frozenset()):
    stats = Stats()
    optsets = [{}, {"initialize_vars": True, "filter_unused_linenum": True}, {"output_dependencies": True, "procname": "ex", "default_str_storage": 80},
               {"add_standard_prefix": False, "add_suffix": False}, {"output_dependencies": True, "procname": "ex", "initialize_vars": True, "default_width32": False}]
    for name, src in tool.example_programs():
        for o in optsets:
            case = {"source": src, "options": o, "name": name}
            try:
                check_case(case)
            except Violation as v:
                stats.fail(v.detail, {"source": src, "options": o, "name": name})
                return stats
            stats.case(key=[name, o], nontrivial=case.get("_status") == "ok", classes=["bundled_example", "status_" + case.get("_status", "?")],
                       sample={"example": name, "options": o})
    return stats


EXTRA_STATEMENTS = ["TRON", "TROFF", "RESTORE", "END", "STOP", "RETURN", "GOTO 10", "GOSUB 10", "CLEAR 200", "CLS", "RGB", "CMP", "PALETTE RGB", "PALETTE CMP",
                    "LINE INPUT ZS$", "INPUT \"P\";ZN,ZS$", "PRINT", "PRINT ZN;ZS$,1", "ZS$=INKEY$", "LET ZN=1", "ON ERR GOTO 10", "ON BRK GOTO 10", "DATA 1,2", "REM X", "'X"]
CONTEXTS = [("plain", "10 {s}"), ("after_colon", "10 C=1:{s}:C=2"), ("if", "10 IF B=1 THEN {s}"), ("if_then", "10 IF B=1 THEN {s} ELSE C=1"),
            ("if_else", "10 IF B=1 THEN C=1 ELSE {s}"), ("elseif_arm", "10 IF B=1 THEN C=1 ELSE IF B=2 THEN {s} ELSE C=2"), ("elseif_last", "10 IF B=1 THEN C=1 ELSE IF B=2 THEN C=2 ELSE {s}"),
            ("for_body", "10 FOR I=1 TO 2:{s}:NEXT"), ("if_in_for", "10 FOR I=1 TO 2:IF B=1 THEN {s}\n20 NEXT")]


def enumerate_contexts(part, nparts, switches=frozenset()):
    """Every statement template of the grammar (the C10 slot table: each operand position of each statement and function, plus the operand-free
    statements) in every block context - alone, between statements, in the THEN / ELSE / ELSE-IF arms of an IF, in a FOR body: the output must
    be well-formed (complete enumeration, two option sets)."""
    from vf.props import c10

    stats = Stats()
    stmts = [t.format(n="A", s="A$") for t in c10.NUM_SLOTS] + [t.format(n="A", s="A$") for t in c10.STR_SLOTS] + EXTRA_STATEMENTS
    # ... and the same templates with operands that need temporaries, and with operands that start with a unary operator / end in a literal
    for n_, s_ in (("INT(A)", "STR$(A)"), ("-A", 'A$+"x"')):
        for t in c10.NUM_SLOTS + c10.STR_SLOTS:
            if t.startswith(("INPUT ZQ", "READ ZQ", "ZN=VARPTR")) and "no_convertible_in_read_input_subscripts" in switches and "INT" in n_:
                continue
            stmts.append(t.format(n=n_, s=s_))
    k = 0
    for st_ in stmts:
        for cname, ctx in CONTEXTS:
            ends_line = st_.startswith(("REM", "'")) or "DATA" in st_
            has_if = st_.startswith("IF") or "NEXT" in st_ or "FOR " in st_
            if cname != "plain" and (ends_line and cname in ("after_colon", "if_then", "elseif_arm", "for_body")):
                continue
            if has_if and cname != "plain" and cname != "after_colon":
                continue
            if "hprint_string_only" in switches and st_.startswith("HPRINT") and "{n}" in st_:
                continue
            k += 1
            if k % nparts != part:
                continue
            for o in ({}, {"initialize_vars": True, "default_str_storage": 80}):
                case = {"source": ctx.format(s=st_), "options": o}
                try:
                    check_case(case)
                except Violation as v:
                    stats.fail(v.detail, case)
                    return stats
                stats.case(key=[case["source"], o], nontrivial=case.get("_status") == "ok" and cname != "plain",
                           classes=["context_" + cname, "status_" + case.get("_status", "?")], sample={"source": case["source"]})
    return stats


def plan(tier, seed, switches):
    if tier == "quick":
        return [("campaign", [dict(seed=seed * 100 + k, n=400, switches=switches) for k in range(4)]), ("examples", [dict(switches=switches)]),
                ("enumerate_contexts", [dict(part=k, nparts=8, switches=switches) for k in range(8)])]
    return [("campaign", [dict(seed=seed * 1000 + k, n=4000, switches=switches) for k in range(15)]), ("examples", [dict(switches=switches)]),
            ("enumerate_contexts", [dict(part=k, nparts=8, switches=switches) for k in range(8)])]


def evidence_extra(stats):
    return {"exhaustive_part": "every statement template of the grammar (170 one-line statements, each also with operands that need temporaries and with operands that start with a unary minus) is converted in each of nine block contexts under two option sets on every run"}
