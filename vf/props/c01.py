"""C01 - translated expressions evaluate to the same values as in Color BASIC.

Differential execution: a generated expression is placed in a statement
context (assignment, IF condition, PRINT item, FOR bound, array index, ON
selector) of a small program; the CB reference runs the AST, the BASIC09
reference runs convert(rendered text); the printed values / taken branches
must agree."""
from hypothesis import strategies as st

from vf import core, diff, sem
from vf.cb import render
from vf.core import Stats, Violation
from vf.diff import Trivial
from vf.gen import cbgen, full

ID = "C01"
RULE = (
    "programs '10 <initial values> / 20 <array corners> / 30 <statement carrying a generated expression> / 40.. <PRINT of every "
    "variable and touched element>' built by Hypothesis: typed expression trees (depth <= 4) over + - * / ^, unary minus, "
    "parentheses, numeric AND/OR/NOT on integer operands, comparisons and AND/OR/NOT between them in IF conditions, string "
    "concatenation/comparison, decimal/exponent/hex literal spellings, numeric and string built-ins incl. nested and convertible "
    "ones; contexts assignment / IF / IF-ELSE / PRINT / FOR bounds / subscript / ON selector; initial values are a drawn "
    "permutation of small integers, dyadic reals and short strings. Non-trivial: >= 2 operator/function nodes of different "
    "precedence levels, or a function nested in another, or a non-canonical literal spelling, and the CB run stayed in the "
    "domain; distinct by sha1 of the AST"
)
RULE += ' Also: every 1-3-operator tree is enumerated (plain and inside ABS), every 1-2-operator tree (1-3 thorough) with one negated leaf or negated as a whole in assignment and IF context, and flat chains of 8-28 operands at one precedence level (sums, products, AND/OR, sums of products, concatenations) are drawn; one case in three is rendered in a drawn layout; relational operators also in their reversed spellings =< =>. A refusal of a generated program counts as a violation.'
ASSUMPTIONS = [
    "CB-1..CB-9 and B09-1..B09-8 of DESIGN.md section 3 (precedence, associativity, typing, built-ins); uncertain zones U-1..U-7 are not generated",
    "arithmetic is exact rationals / doubles on both sides; number formatting is abstract (printed numbers compare by value)",
]

CONTEXTS = ["assign", "assign", "assign", "sassign", "if", "if", "ifelse", "print", "for", "subscript", "on"]


@st.composite
def cases(draw, switches):
    # multi-dimensional implicit arrays are C03/C10's open finding: not this property's business
    g = cbgen.Gen(draw, frozenset(switches) | {"implicit_arrays_1d"}, convertible=True, device_fn=False)
    ctx = draw(st.sampled_from(CONTEXTS))
    depth = draw(st.integers(1, 4))
    body = []
    extra_lines = []
    if ctx == "assign":
        body.append(["let", g.num_target(), g.num(depth), draw(st.booleans())])
    elif ctx == "sassign":
        body.append(["let", g.str_target(), g.string(depth), False])
    elif ctx == "if":
        c = g.cond(depth)
        body.append(["if", c, ["stmts", [["let", ["var", "Z9"], ["num", "1", 1], False]]], None])
    elif ctx == "ifelse":
        g.in_ifelse_cond = True
        c = g.cond(depth, allow_bare=not g.on("ifelse_bare_numeric"))
        g.in_ifelse_cond = False
        body.append(["if", c, ["stmts", [["let", ["var", "Z9"], ["num", "1", 1], False]]],
                     ["stmts", [["let", ["var", "Z9"], ["num", "2", 2], False]]]])
    elif ctx == "print":
        items = []
        for k in range(draw(st.integers(1, 3))):
            if k:
                items.append(["s", ";"])
            items.append(["e", g.num(depth) if draw(st.booleans()) else g.string(depth)])
        body.append(["print", items])
    elif ctx == "for":
        body.append(["for", "L", g.integer(min(depth, 2)), g.integer(min(depth, 2)), draw(st.sampled_from([None, ["num", "1", 1], ["num", "2", 2], ["neg", ["num", "1", 1]]]))])
        body.append(["let", ["var", "T9"], ["bin", "+", ["bin", "*", ["var", "T9"], ["num", "3", 3]], ["var", "L"]], False])
        body.append(["next", [] if draw(st.booleans()) else ["L"]])
    elif ctx == "subscript":
        sub = ["bin", "AND", ["par", g.integer(min(depth, 3))], ["num", "7", 7]]
        if draw(st.booleans()):
            body.append(["let", ["arr", "P", [sub]], g.num(1), False])
        else:
            body.append(["let", g.num_target(), ["bin", "+", ["arr", "P", [sub]], ["num", "1", 1]], False])
        g.num_arrays.setdefault("P", [10])
        g.used.add(("na", "P"))
    elif ctx == "on":
        inner = g.integer(min(depth, 3))
        if draw(st.booleans()):
            # a selector that needs a procedure call and reads a variable
            v = draw(st.sampled_from(g.int_vars))
            g.used.add(("n", v))
            g.n_conv += 1
            inner = ["fn", "INT", [["bin", "+", ["var", v], ["bin", "*", inner, ["num", "0", 0]]]]]
        sel = ["bin", "AND", ["par", inner], ["num", "3", 3]]
        body.append(["on", sel, draw(st.sampled_from(["GOTO", "GOSUB"])), [100, 110, 120]])
        extra_lines = [[100, [["let", ["var", "Z9"], ["num", "5", 5], False], ["goto", 40]]],
                       [110, [["let", ["var", "Z9"], ["num", "6", 6], False], ["goto", 40]]],
                       [120, [["let", ["var", "Z9"], ["num", "7", 7], False], ["goto", 40]]]]
    init = cbgen.init_values(draw, g)
    corners = []
    for name, bounds in sorted(g.num_arrays.items()):
        if len(bounds) == 1:
            for i, v in ((0, 3), (7, 5), (10, 4)):
                corners.append(["let", ["arr", name, [["num", str(i), i]]], ["num", str(v), v], False])
        else:
            corners.append(["let", ["arr", name, [["num", "0", 0]] * len(bounds)], ["num", "3", 3], False])
            corners.append(["let", ["arr", name, [["num", "10", 10]] * len(bounds)], ["num", "4", 4], False])
    for name, bounds in sorted(g.str_arrays.items()):
        if len(bounds) == 1:
            corners.append(["let", ["sarr", name, [["num", "0", 0]]], ["str", "AB"], False])
            corners.append(["let", ["sarr", name, [["num", "10", 10]]], ["str", "B"], False])
    prog = [[10, init]]
    if corners:
        prog.append([20, corners])
    if draw(st.booleans()) and ctx not in ("for",):
        # a statement that changes an operand sits immediately before the carrying statement (same line or the line before):
        # anything computed too early, or attached to the wrong statement, becomes visible
        used_n = sorted(v for k, v in g.used if k == "n")
        if used_n:
            v = draw(st.sampled_from(used_n))
            pre = ["let", ["var", v], ["bin", "+", ["var", v], ["num", "1", 1]], False]
            if draw(st.booleans()):
                body = [pre] + body
            else:
                prog.append([25, [pre]])
    prog.append([30, body])
    # epilogue: print everything observable
    ep = []
    for v in g.int_vars + g.real_vars + ["Z9", "T9", "L"]:
        ep += [["e", ["var", v]], ["s", ";"]]
    prog.append([40, [["print", ep[:-1]]]])
    if g.strings:
        ep = []
        for v in g.str_vars:
            ep += [["e", ["str", "["]], ["s", ";"], ["e", ["svar", v]], ["s", ";"]]
        prog.append([50, [["print", ep[:-1]]]])
    ln = 60
    for name, bounds in sorted(g.num_arrays.items()):
        if len(bounds) == 1:
            ep = []
            for i in range(11):
                ep += [["e", ["arr", name, [["num", str(i), i]]]], ["s", ";"]]
            prog.append([ln, [["print", ep[:-1]]]])
            ln += 2
    for name, bounds in sorted(g.str_arrays.items()):
        if len(bounds) == 1:
            ep = []
            for i in (0, 1, 10):
                ep += [["e", ["str", "["]], ["s", ";"], ["e", ["sarr", name, [["num", str(i), i]]]], ["s", ";"]]
            prog.append([ln, [["print", ep[:-1]]]])
            ln += 2
    prog.append([90, [["end"]]])
    prog += extra_lines
    nontrivial = len(g.precs) >= 2 or g.nested_fn or g.odd_spelling
    classes = ["ctx_" + ctx] + (["operand_modified_just_before"] if any(l[0] == 25 for l in prog) or (body and body[0][0] == "let" and len(body) > 1 and ctx not in ("for",)) else [])
    if g.n_conv:
        classes.append("has_convertible_fn")
    if g.nested_fn:
        classes.append("nested_function")
    if g.odd_spelling:
        classes.append("noncanonical_literal")
    if len(g.precs) >= 3:
        classes.append("three_precedence_levels")
    return full.add_layout(draw, {"prog": prog, "paren_unary": "paren_unary" in switches,
                                  "_meta": {"nontrivial": nontrivial, "classes": classes, "excluded": dict(g.excluded)}}, switches, key="source_override")


def check_case(case):
    prog = case["prog"]
    opts = dict(case.get("options", {"initialize_vars": True}))
    try:
        cb = diff.run_source(prog)
        src, out = diff.translate(prog, case, opts, paren_unary=case.get("paren_unary", False), source_override=case.get("source_override"))
        case["_source"] = src
        if cb.zero_trip_for and case.get("skip_zero_trip", True):
            raise Trivial("for_zero_trip (open finding C02-for-zero-trip)")
        b9 = diff.run_translation(out, case)
        diff.compare(cb, b9, case, what="printed values / branches")
    except Trivial as t:
        case["_trivial"] = t.why
        return None
    return None


def campaign(seed, n, switches=frozenset()):
    stats = Stats()

    def body(case):
        meta = case.pop("_meta")
        if meta.get("drawn_layout"):
            stats.classes["drawn_layout"] += 1
        case = dict(case)
        check_case(case)
        triv = case.get("_trivial")
        classes = list(meta["classes"])
        if triv:
            classes.append("trivial_" + triv.split(":")[0].split(" ")[0])
        for k, v in meta["excluded"].items():
            stats.excluded[k] += v
        stats.case(key=case["prog"], nontrivial=meta["nontrivial"] and not triv, classes=classes,
                   sample={"source": case.get("_source", "")})

    core.run_hypothesis(body, cases(switches), seed=seed, max_examples=n, stats=stats)
    return stats


@st.composite
def chain_cases(draw, switches):
    """Long chains at one precedence level, written without parentheses: 8-28 operands joined by + and -, by * and /, by AND / OR, or sums of
    short products - in an assignment, a PRINT item, an IF comparison, a subscript or a function argument; string concatenations likewise."""
    kind = draw(st.sampled_from(["sum", "sum", "product", "sum_of_products", "logic", "concat"]))
    n = draw(st.integers(8, 28))
    leaves = [["var", v] for v in ("I", "J", "K", "N")] + [["num", str(k), k] for k in (1, 2, 3, 5, 7)]
    leaf = lambda: list(draw(st.sampled_from(leaves)))
    if kind == "concat":
        e = ["str", "A0"]
        for i in range(1, n):
            e = ["scat", e, draw(st.sampled_from([["str", "B%d" % i], ["svar", "S"], ["fn", "CHR$", [["num", str(65 + i % 26), 65 + i % 26]]]]))]
        stmt = ["let", ["svar", "T"], e, False]
        prog = [[10, [["let", ["svar", "S"], ["str", "xy"], False]]], [30, [stmt]], [40, [["print", [["e", ["svar", "T"]]]]]]]
        return {"prog": prog, "paren_unary": "paren_unary" in switches, "options": {"initialize_vars": True, "default_str_storage": 255},
                "_meta": {"nontrivial": True, "classes": ["chain_concat", "chain_len_%d" % (n // 8 * 8)], "excluded": {}}}
    if kind == "sum":
        e = leaf()
        for _ in range(n - 1):
            e = ["bin", draw(st.sampled_from(["+", "-"])), e, leaf()]
    elif kind == "product":
        e = leaf()
        for _ in range(n - 1):
            e = ["bin", draw(st.sampled_from(["*", "*", "/"])), e, draw(st.sampled_from([["num", "1", 1], ["num", "2", 2], ["var", "K"], ["num", "3", 3]]))]
    elif kind == "sum_of_products":
        def term():
            t = leaf()
            for _ in range(draw(st.integers(0, 2))):
                t = ["bin", "*", t, leaf()]
            return t
        e = term()
        for _ in range(n - 1):
            e = ["bin", draw(st.sampled_from(["+", "-"])), e, term()]
    else:
        op = draw(st.sampled_from(["AND", "OR"]))
        e = leaf()
        for _ in range(n - 1):
            e = ["bin", op if draw(st.integers(0, 5)) else ("OR" if op == "AND" else "AND"), e, leaf()]
        # AND binds tighter than OR: rebuild a mixed chain as an OR of AND-runs so that the flat text means the same tree
        flat = []
        def fl(x):
            if x[0] == "bin" and x[1] in ("AND", "OR"):
                fl(x[2]); flat.append(x[1]); fl(x[3])
            else:
                flat.append(x)
        fl(e)
        runs, cur = [], flat[0]
        for i in range(1, len(flat), 2):
            if flat[i] == "AND":
                cur = ["bin", "AND", cur, flat[i + 1]]
            else:
                runs.append(cur); cur = flat[i + 1]
        runs.append(cur)
        e = runs[0]
        for r in runs[1:]:
            e = ["bin", "OR", e, r]
    ctx = draw(st.sampled_from(["assign", "print", "if", "arg"]))
    init = [["let", ["var", v], cbgen.lit_expr(x), False] for v, x in zip(("I", "J", "K", "N"), draw(st.permutations([7, 3, 2, 5])))]
    if ctx == "assign":
        body = [["let", ["var", "X"], e, False]]
    elif ctx == "print":
        body = [["print", [["e", e]]]]
    elif ctx == "if":
        body = [["if", ["cmp", draw(st.sampled_from([">", "<=", "="])), e, ["num", "4", 4]], ["stmts", [["let", ["var", "X"], ["num", "9", 9], False]]], None]]
    else:
        body = [["let", ["var", "X"], ["bin", "+", ["fn", "ABS", [e]], ["num", "1", 1]], False]]
    prog = [[10, init], [30, body], [40, [["print", [["e", ["var", "X"]]]]]]]
    return full.add_layout(draw, {"prog": prog, "paren_unary": "paren_unary" in switches,
                                  "_meta": {"nontrivial": True, "classes": ["chain_" + kind, "chain_ctx_" + ctx, "chain_len_%d" % (n // 8 * 8)], "excluded": {}}},
                           switches, key="source_override", one_in=4)


def chains(seed, n, switches=frozenset()):
    stats = Stats()

    def body(case):
        meta = case.pop("_meta")
        case = dict(case)
        check_case(case)
        triv = case.get("_trivial")
        classes = list(meta["classes"]) + (["trivial_" + triv.split(":")[0].split(" ")[0]] if triv else [])
        stats.case(key=case["prog"], nontrivial=not triv, classes=classes, sample={"source": case.get("_source", "")})

    core.run_hypothesis(body, chain_cases(switches), seed=seed, max_examples=n, stats=stats)
    return stats


ENUM_OPS = ["+", "-", "*", "/", "^", "AND", "OR"]
ENUM_LEAVES = [["var", "I"], ["var", "J"], ["var", "K"], ["var", "N"]]


def _shapes(n):
    """All binary tree shapes with n internal nodes, as nested tuples ('.', l, r) / None for a leaf."""
    if n == 0:
        return [None]
    out = []
    for k in range(n):
        for l in _shapes(k):
            for r in _shapes(n - 1 - k):
                out.append((".", l, r))
    return out


def _fill(shape, ops, leaves):
    if shape is None:
        return leaves.pop(0)
    op = ops.pop(0)
    l = _fill(shape[1], ops, leaves)
    r = _fill(shape[2], ops, leaves)
    return ["bin", op, l, r]


def _has_chained_pow(e):
    if e[0] != "bin":
        return False
    if e[1] == "^" and e[2][0] == "bin" and e[2][1] == "^":
        return True  # A^B^C unparenthesised: uncertain zone U-1
    return _has_chained_pow(e[2]) or _has_chained_pow(e[3])


def enumerate_trees(part, nparts, switches=frozenset()):
    """Every operator tree with 1..3 binary operators over + - * / ^ AND OR and distinct variable leaves, in an
    assignment, under two value vectors (complete enumeration; chained '^' excluded as uncertain zone U-1)."""
    import itertools

    stats = Stats()
    vectors = [{"I": 7, "J": 3, "K": 2, "N": 5}, {"I": -6, "J": 4, "K": 1, "N": 3}]
    k = 0
    for n in (1, 2, 3):
        for shape in _shapes(n):
            for ops in itertools.product(ENUM_OPS, repeat=n):
                k += 1
                if k % nparts != part:
                    continue
                e = _fill(shape, list(ops), [list(x) for x in ENUM_LEAVES])
                if _has_chained_pow(e):
                    stats.excluded["chained_power_U1"] += 1
                    continue
                for vec, wrap in ((vectors[0], None), (vectors[1], None), (vectors[0], "ABS")):
                    init = [["let", ["var", v], cbgen.lit_expr(x), False] for v, x in vec.items()]
                    rhs = e if wrap is None else ["bin", "+", ["fn", wrap, [e]], ["num", "1", 1]]
                    prog = [[10, init], [30, [["let", ["var", "X"], rhs, False]]], [40, [["print", [["e", ["var", "X"]]]]]]]
                    case = {"prog": prog, "paren_unary": "paren_unary" in switches}
                    try:
                        check_case(case)
                    except Violation as v:
                        stats.fail(v.detail, v.case)
                        return stats
                    triv = case.get("_trivial")
                    stats.case(key=[e, vec, wrap], nontrivial=(n >= 2 and not triv), classes=["enumerated_tree_%d_ops" % n] + (["trivial_" + triv.split(":")[0]] if triv else []),
                               sample={"source": case.get("_source", "").split("\n")[1] if case.get("_source") else ""})
    stats.exhaustive = True
    return stats


def _neg_leaf(e, idx, counter):
    """Copy of tree e with its idx-th leaf (left to right) under a unary minus."""
    if e[0] != "bin":
        counter[0] += 1
        return ["neg", list(e)] if counter[0] - 1 == idx else list(e)
    return ["bin", e[1], _neg_leaf(e[2], idx, counter), _neg_leaf(e[3], idx, counter)]


def enumerate_unary(part, nparts, max_ops=2, switches=frozenset()):
    """Every operator tree with 1..max_ops binary operators in which exactly one leaf carries a unary minus, plus the negated whole tree, as the
    right-hand side of an assignment and as the left operand of the comparison of an IF (complete enumeration)."""
    import itertools

    stats = Stats()
    vec = {"I": 7, "J": -3, "K": 2, "N": 5}
    k = 0
    for n in range(1, max_ops + 1):
        for shape in _shapes(n):
            for ops in itertools.product(ENUM_OPS, repeat=n):
                base = _fill(shape, list(ops), [list(x) for x in ENUM_LEAVES])
                if _has_chained_pow(base):
                    continue
                variants = [_neg_leaf(base, i, [0]) for i in range(n + 1)] + [["neg", ["par", base]]]
                for vi, e in enumerate(variants):
                    k += 1
                    if k % nparts != part:
                        continue
                    for ctx in ("assign", "if"):
                        init = [["let", ["var", v], cbgen.lit_expr(x), False] for v, x in vec.items()]
                        if ctx == "assign":
                            body = [["let", ["var", "X"], e, False]]
                        else:
                            body = [["if", ["cmp", ">", e, ["num", "1", 1]], ["stmts", [["let", ["var", "X"], ["num", "9", 9], False]]], None]]
                        prog = [[10, init], [30, body], [40, [["print", [["e", ["var", "X"]]]]]]]
                        case = {"prog": prog, "paren_unary": "paren_unary" in switches}
                        try:
                            check_case(case)
                        except Violation as v:
                            stats.fail(v.detail, v.case)
                            return stats
                        triv = case.get("_trivial")
                        stats.case(key=[e, ctx], nontrivial=not triv, classes=["enumerated_unary_%d_ops_%s" % (n, ctx)] + (["trivial_" + triv.split(":")[0]] if triv else []),
                                   sample={"source": case.get("_source", "").split("\n")[1] if case.get("_source") else ""})
    return stats


def plan(tier, seed, switches):
    if tier == "quick":
        return [("campaign", [dict(seed=seed * 100 + k, n=400, switches=switches) for k in range(4)]),
                ("enumerate_trees", [dict(part=k, nparts=4, switches=switches) for k in range(4)]),
                ("enumerate_unary", [dict(part=k, nparts=4, max_ops=2, switches=switches) for k in range(4)]),
                ("chains", [dict(seed=seed * 100 + 50 + k, n=100, switches=switches) for k in range(2)])]
    return [("campaign", [dict(seed=seed * 1000 + k, n=4000, switches=switches) for k in range(16)]),
            ("enumerate_trees", [dict(part=k, nparts=8, switches=switches) for k in range(8)]),
            ("enumerate_unary", [dict(part=k, nparts=16, max_ops=3, switches=switches) for k in range(16)]),
            ("chains", [dict(seed=seed * 1000 + 500 + k, n=1500, switches=switches) for k in range(8)])]


def evidence_extra(stats):
    return {"exhaustive_part": "every operator tree with 1-3 binary operators over + - * / ^ AND OR (distinct variable leaves, two value vectors, assignment context) is enumerated on every run; so is every such tree with 1-2 operators (1-3 in the thorough tier) in which one leaf, or the whole tree, carries a unary minus, in assignment and IF-comparison context"}
