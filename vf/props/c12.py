"""C12 - conversion (and every decoder) is a deterministic function of input and options.

(a) history independence inside one process: a Hypothesis rule-based state
    machine converts program i under option set j, and decodes fixture image k,
    in arbitrary order with repeats; every (i, j) / k must always give the bytes
    recorded the first time it was asked.
(b) across processes: the same batch is handed to fresh interpreters started
    with different PYTHONHASHSEED values; all per-item digests must agree.
"""
import hashlib
import json
import os
import subprocess
import sys

from hypothesis import strategies as st

from vf import core, tool
from vf.core import Stats, Violation, digest
from vf.gen import images as gi

ID = "C12"
RULE = (
    "programs are built by Hypothesis from statement fragments that create implicit arrays (numeric and "
    "string, random 1-2 character names), string variables of several sizes, DIM lists and runtime-using "
    "statements, plus the bundled examples; each is converted under a generated option set. A case is "
    "non-trivial when the program has >= 2 implicit arrays or >= 2 runtime dependencies (hash-seed part), "
    "or when a history repeats a (program, options) pair after a different one was converted (state machine); "
    "distinct by sha1 of (source, options) / of the history"
)
RULE += ' Option sets include per-name size maps; in histories one configuration object can be kept for all conversions of the process and a request re-converted with another default size.'
ASSUMPTIONS = [
    "PYTHONHASHSEED values tried are a sample, not all 2^32",
    "decoders are exercised on the repository's fixture files and on generated images of C16/C17 shape",
]

NAMES1 = list("ABCDEFGHIJKLMNOPQRSTUVWXYZ")
SAFE2 = ["AA", "AB", "B1", "C2", "XY", "ZZ", "Q9", "K", "M", "W", "V1", "H2", "J", "U", "EE", "GG", "R2", "S1", "T3", "L0"]

DEVICE = [
    "CLS",
    "CLS 3",
    "SOUND 1,2",
    'PLAY "CDE"',
    "HSCREEN 2",
    "HCLS 1",
    "HCOLOR 1,2",
    "HLINE(1,2)-(3,4),PSET,BF",
    "HCIRCLE(10,10),5",
    'HDRAW "U4R4"',
    "HSET(1,2)",
    "HBUFF 1,100",
    "HGET(0,0)-(4,4),1",
    "HPAINT(1,1),2,3",
    "PALETTE 1,2",
    "ATTR 1,2,B",
    "LOCATE 1,2",
    "WIDTH 40",
    'HPRINT(1,1),"X"',
    "SET(1,1,1)",
    "RESET(1,1)",
    "POKE 65497,0",
]


@st.composite
def rich_program(draw):
    """A program with several implicit arrays / strings / dependencies."""
    names = draw(st.lists(st.sampled_from(SAFE2), min_size=2, max_size=9, unique=True))
    lines = []
    num = 10
    classes = set()
    n_impl = 0
    n_dep = 0
    dimmed = set()
    if draw(st.booleans()):
        dn = draw(st.lists(st.sampled_from(names), min_size=1, max_size=3, unique=True))
        parts = []
        for n in dn:
            kind = draw(st.sampled_from(["num", "str", "sstr"]))
            if kind == "num":
                parts.append("%s(%d)" % (n, draw(st.integers(1, 12))))
                dimmed.add(n + "(")
            elif kind == "str":
                parts.append("%s$(%d,%d)" % (n, draw(st.integers(1, 4)), draw(st.integers(1, 4))))
                dimmed.add(n + "$(")
            else:
                parts.append("%s$" % n)
        lines.append("%d DIM %s" % (num, ",".join(parts)))
        num += 10
        classes.add("has_dim")
    stmts = []
    # the same base name may occur as numeric array, string array and scalars at once (N(1), N$(1), N, N$ are four variables)
    for n in names + draw(st.lists(st.sampled_from(names), max_size=4)):
        kind = draw(st.sampled_from(["arr", "sarr", "svar", "var", "fn"]))
        if kind == "arr":
            stmts.append("%s(%d)=%d" % (n, draw(st.integers(0, 10)), draw(st.integers(0, 99))))
            if n + "(" not in dimmed:
                n_impl += 1
        elif kind == "sarr":
            if n + "$(" in dimmed:
                stmts.append('%s$(1,1)="%s"' % (n, draw(st.sampled_from(["", "X", "HI THERE"]))))
            else:
                stmts.append('%s$(%d)="%s"' % (n, draw(st.integers(0, 10)), draw(st.sampled_from(["", "X", "HI THERE"]))))
                n_impl += 1
        elif kind == "svar":
            stmts.append('%s$="%s"+STR$(%d)' % (n, draw(st.sampled_from(["", "A", "B C"])), draw(st.integers(0, 9))))
            n_dep += 1
        elif kind == "var":
            stmts.append("%s=%d" % (n, draw(st.integers(-5, 500))))
        else:
            stmts.append("%s=INT(%s/3)+VAL(\"%d\")" % (n, n, draw(st.integers(0, 9))))
            n_dep += 2
    for d in draw(st.lists(st.sampled_from(DEVICE), max_size=5, unique=True)):
        stmts.append(d)
        n_dep += 1
    stmts = draw(st.permutations(stmts))
    i = 0
    while i < len(stmts):
        k = draw(st.integers(1, 3))
        lines.append("%d %s" % (num, ":".join(stmts[i : i + k])))
        num += 10
        i += k
    if draw(st.booleans()):
        lines.append("%d PRINT %s" % (num, ";".join(names[:3])))
        n_dep += 1
    if n_impl >= 2:
        classes.add("implicit_arrays>=2")
    if n_dep >= 2:
        classes.add("dependencies>=2")
    return "\n".join(lines), sorted(classes)


@st.composite
def option_set(draw):
    o = {}
    if draw(st.booleans()):
        o["filter_unused_linenum"] = True
    if draw(st.booleans()):
        o["initialize_vars"] = True
    if draw(st.booleans()):
        o["default_width32"] = False
    if draw(st.booleans()):
        o["output_dependencies"] = True
        o["procname"] = draw(st.sampled_from(["prog", "a_b", "X1"]))
    if draw(st.booleans()):
        o["default_str_storage"] = draw(st.sampled_from([33, 80, 255]))
    if draw(st.integers(0, 3)) == 0:
        o["add_standard_prefix"] = False
    if draw(st.integers(0, 1)) == 0:
        # a per-name size map over the names the programs use; one map in two is an object the caller keeps and passes to every conversion
        # (a handful of fixed maps, so that the same map - hence the same kept object - recurs within one history)
        o["string_configs"] = draw(st.sampled_from([{"AA$": 40}, {"AB$()": 80, "K$": 1}, {"B1$": 200, "C2$()": 40, "XY$": 33}, {"ZZ$": 80, "AA$()": 80, "Q9$": 80, "M$": 80}]))
        o["share_config"] = draw(st.booleans())
    return o


def conv_digest(src, opts):
    status, out = tool.try_convert(src, **opts)
    return status + ":" + hashlib.sha1(out.encode("utf-8", "replace")).hexdigest()


# ---------------------------------------------------------------- decoders
FIXTURES = [
    ("hrstoppm", ["monalisa.hrs"], ".ppm"),
    ("maxtoppm", ["eye4.max"], ".ppm"),
    ("maxtoppm", ["-br", "eye4.max"], ".ppm"),
    ("maxtoppm", ["-newsroom", "shamrock.art"], ".ppm"),
    ("mgetoppm", ["dragon1.mge"], ".ppm"),
    ("cm3toppm", ["clip1.cm3"], ".ppm"),
    ("rattoppm", ["watrfall.rat"], ".ppm"),
    ("pixtopgm", ["sue.pix"], ".pgm"),
    ("veftopng", ["owlcasl.vef"], ".png"),
    ("veftopng", ["trekies.vef"], ".png"),
]


def decode_generated_image(spec, tmpdir):
    from vf.img import model, run

    b = model.build(spec)
    r = run.run_decoder(spec["fmt"], b.data, b.argv, tmpdir=tmpdir)
    return r.status + ":" + hashlib.sha1(r.out or b"").hexdigest()


def decode_fixture(k, tmpdir):
    import importlib

    modname, args, ext = FIXTURES[k]
    fx = os.path.join(tool.REPO, "tests", "coco_tests", "fixtures")
    argv = [a if a.startswith("-") else os.path.join(fx, a) for a in args]
    out = os.path.join(tmpdir, "out%d%s" % (k, ext))
    mod = importlib.import_module("coco." + modname)
    with tool.quiet():
        mod.start(argv + [out])
    with open(out, "rb") as f:
        data = f.read()
    os.remove(out)
    return hashlib.sha1(data).hexdigest()


# ---------------------------------------------------------------- (b) hash seeds
def worker_main():
    """Runs in a fresh interpreter: read a JSON batch on stdin, print digests."""
    batch = json.load(sys.stdin)
    res = []
    for src, opts in batch["programs"]:
        res.append(conv_digest(src, opts))
    with tool.scratch_dir() as d:
        for k in batch["fixtures"]:
            res.append(decode_fixture(k, d))
    json.dump(res, sys.stdout)


def run_batch_under_seed(batch, hashseed):
    env = dict(os.environ)
    env["PYTHONHASHSEED"] = str(hashseed)
    p = subprocess.run(
        [sys.executable, "-c", "from vf.props import c12; c12.worker_main()"],
        input=json.dumps(batch).encode(),
        stdout=subprocess.PIPE,
        stderr=subprocess.PIPE,
        env=env,
        cwd=core.VERIF_ROOT,
    )
    if p.returncode != 0:
        raise core.HarnessError("C12 worker failed: " + p.stderr.decode("utf-8", "replace")[-2000:])
    return json.loads(p.stdout.decode())


def check_case(case):
    kind = case.get("kind")
    if kind == "hashseed":
        batch = {"programs": [[case["source"], case.get("options", {})]], "fixtures": case.get("fixtures", [])}
        ref = None
        for hs in case.get("hash_seeds", [0, 1, 2, 3]):
            r = run_batch_under_seed(batch, hs)
            if ref is None:
                ref = (hs, r)
            elif r != ref[1]:
                raise Violation(
                    "output differs between PYTHONHASHSEED=%s and %s for %r" % (ref[0], hs, case["source"][:200]), case
                )
        return None
    if kind == "decoder_history":
        check_decoder_history(case)
        return None
    if kind == "history_vs_fresh":
        seen = {}
        for step in case["steps"]:
            if step[0] == "conv":
                seen.setdefault(digest(["conv", step[1], step[2]]), conv_digest(step[1], step[2]))
        req = case["request"]
        fresh = run_batch_under_seed({"programs": [[req[1], req[2]]], "fixtures": []}, 0)[0]
        if seen.get(digest(["conv", req[1], req[2]])) != fresh:
            raise Violation("a conversion inside a history gives different bytes than the same request in a fresh process", case)
        return None
    if kind == "history":
        seen = {}
        with tool.scratch_dir() as d:
            for step in case["steps"]:
                if step[0] == "conv":
                    _, src, opts = step
                    key = digest(["conv", src, opts])
                    val = conv_digest(src, opts)
                elif step[0] == "decode_image":
                    key = "img" + digest(step[1])
                    val = decode_generated_image(step[1], d)
                else:
                    key = "fx%d" % step[1]
                    val = decode_fixture(step[1], d)
                if key in seen and seen[key] != val:
                    raise Violation("repeated call gave different bytes at step %r" % (step,), case)
                seen.setdefault(key, val)
        return None
    raise core.HarnessError("unknown C12 case kind %r" % kind)


def campaign_hashseed(seed, n, hash_seeds, switches=frozenset()):
    """Generate n programs, run the whole batch under each hash seed."""
    stats = Stats()
    from hypothesis import given, settings, HealthCheck, Phase
    import hypothesis

    programs = []

    def body(v):
        (src, classes), opts = v
        programs.append((src, classes, opts))

    core.run_hypothesis(body, st.tuples(rich_program(), option_set()), seed=seed, max_examples=n, stats=stats, shrink=False)
    for name, src in tool.example_programs():
        programs.append((src, ["bundled_example"], {"output_dependencies": True, "procname": "ex", "initialize_vars": True}))
    batch = {"programs": [[s, o] for s, _, o in programs], "fixtures": list(range(len(FIXTURES)))}
    ref = None
    from concurrent.futures import ThreadPoolExecutor

    with ThreadPoolExecutor(max_workers=min(8, len(hash_seeds))) as ex:
        results = list(ex.map(lambda hs: run_batch_under_seed(batch, hs), hash_seeds))
    diffs = {}
    for hs, r in zip(hash_seeds, results):
        if ref is None:
            ref = r
            ref_hs = hs
            continue
        for idx, (x, y) in enumerate(zip(ref, r)):
            if x != y and idx not in diffs:
                diffs[idx] = hs
    if diffs:
        # report the smallest differing item (a batch is not shrunk by Hypothesis)
        def size(idx):
            return len(programs[idx][0]) if idx < len(programs) else 10 ** 9

        idx = min(diffs, key=lambda i: (size(i), i))
        hs = diffs[idx]
        if idx < len(programs):
            s_, _, o_ = programs[idx]
            stats.fail(
                "conversion output differs between PYTHONHASHSEED=%s and %s (%d of %d items differ)" % (ref_hs, hs, len(diffs), len(ref)),
                {"kind": "hashseed", "source": s_, "options": o_, "hash_seeds": [ref_hs, hs]},
            )
        else:
            k = idx - len(programs)
            stats.fail(
                "decoder output differs between PYTHONHASHSEED=%s and %s for %r" % (ref_hs, hs, FIXTURES[k]),
                {"kind": "hashseed", "source": "10 REM", "options": {}, "fixtures": [k], "hash_seeds": [ref_hs, hs]},
            )
    for (s, classes, o), dg in zip(programs, ref or []):
        nontriv = "implicit_arrays>=2" in classes or "dependencies>=2" in classes or "bundled_example" in classes
        stats.case(key=[s, o], nontrivial=nontriv and dg.startswith("ok:"), classes=classes + ["status_" + dg.split(":")[0]],
                   sample={"source": s, "options": o, "hash_seeds": list(hash_seeds)})
    stats.classes["hash_seeds_tried"] = len(hash_seeds)
    stats.classes["decoder_fixture_runs"] = len(FIXTURES) * len(hash_seeds)
    return stats


def campaign_history(seed, n, steps, switches=frozenset(), fresh_check=True):
    """Rule-based state machine over conversions and decodings."""
    import hypothesis
    from hypothesis import settings, HealthCheck, Phase
    from hypothesis.stateful import RuleBasedStateMachine, rule, run_state_machine_as_test, precondition

    stats = Stats()
    last = {}

    class History(RuleBasedStateMachine):
        def __init__(self):
            super().__init__()
            self.first = {}
            self.steps = []
            self.keys = []
            self.tmp = tool.scratch_dir()
            self.tmpdir = self.tmp.__enter__()
            self.nontrivial = False

        def _record(self, key, val, step):
            self.steps.append(step)
            if key in self.first:
                if any(k != key for k in self.keys[self.keys.index(key) + 1 :]):
                    self.nontrivial = True
                if self.first[key] != val:
                    v = Violation(
                        "repeated request gave different bytes (history of %d steps)" % len(self.steps),
                        {"kind": "history", "steps": list(self.steps)},
                    )
                    last["v"] = v
                    raise v
            else:
                self.first[key] = val
            self.keys.append(key)

        @rule(prog=rich_program(), opts=option_set())
        def convert_new(self, prog, opts):
            src, _ = prog
            self._record(digest(["conv", src, opts]), conv_digest(src, opts), ["conv", src, opts])

        @precondition(lambda self: any(s[0] == "conv" for s in self.steps))
        @rule(data=st.data())
        def convert_again(self, data):
            convs = [s for s in self.steps if s[0] == "conv"]
            s = data.draw(st.sampled_from(convs))
            self._record(digest(["conv", s[1], s[2]]), conv_digest(s[1], s[2]), s)

        @precondition(lambda self: any(s[0] == "conv" for s in self.steps))
        @rule(data=st.data(), opts=option_set())
        def convert_same_program_other_options(self, data, opts):
            convs = [s for s in self.steps if s[0] == "conv"]
            s = data.draw(st.sampled_from(convs))
            self._record(digest(["conv", s[1], opts]), conv_digest(s[1], opts), ["conv", s[1], opts])

        @precondition(lambda self: any(s[0] == "conv" and s[2].get("share_config") for s in self.steps))
        @rule(data=st.data(), size=st.sampled_from([None, 33, 40, 80, 255]))
        def convert_again_with_the_kept_config_object_and_another_size(self, data, size):
            convs = [s for s in self.steps if s[0] == "conv" and s[2].get("share_config")]
            s = data.draw(st.sampled_from(convs))
            opts = dict(s[2])
            if size is None:
                opts.pop("default_str_storage", None)
            else:
                opts["default_str_storage"] = size
            self._record(digest(["conv", s[1], opts]), conv_digest(s[1], opts), ["conv", s[1], opts])

        @precondition(lambda self: any(s[0] == "conv" for s in self.steps))
        @rule(data=st.data(), tail=st.sampled_from(["\n9000 REM TAIL", "\n9000 PRINT 1", ":REM X", "\n9000 ZZ(1)=2:YY(2)=3"]))
        def convert_program_sharing_a_prefix(self, data, tail):
            convs = [s for s in self.steps if s[0] == "conv"]
            s = data.draw(st.sampled_from(convs))
            src = s[1] + tail
            self._record(digest(["conv", src, s[2]]), conv_digest(src, s[2]), ["conv", src, s[2]])

        @rule(k=st.sampled_from([0, 1, 3, 7]))  # cheap fixtures only inside histories
        def decode(self, k):
            self._record("fx%d" % k, decode_fixture(k, self.tmpdir), ["decode", k])

        @rule(spec=st.one_of(gi.hrs_spec(options=True, even_width=True), gi.max_spec(options=True), gi.pix_spec()))
        def decode_generated(self, spec):
            self._record("img" + digest(spec), decode_generated_image(spec, self.tmpdir), ["decode_image", spec])

        @precondition(lambda self: any(s[0] == "decode_image" for s in self.steps))
        @rule(data=st.data())
        def decode_generated_again(self, data):
            s = data.draw(st.sampled_from([s for s in self.steps if s[0] == "decode_image"]))
            self._record("img" + digest(s[1]), decode_generated_image(s[1], self.tmpdir), s)

        def teardown(self):
            # ground truth: a fresh interpreter converts the distinct requests in reverse order
            convs = []
            seen_k = set()
            for st_ in self.steps:
                if st_[0] == "conv":
                    k_ = digest(["conv", st_[1], st_[2]])
                    if k_ not in seen_k:
                        seen_k.add(k_)
                        convs.append((k_, st_))
            if len(convs) >= 2 and fresh_check:
                rev = list(reversed(convs))
                fresh = run_batch_under_seed({"programs": [[s_[1], s_[2]] for _, s_ in rev], "fixtures": []}, 0)
                for (k_, s_), dg in zip(rev, fresh):
                    if self.first.get(k_) != dg:
                        v = Violation("a conversion inside a history of %d steps gave different bytes than the same request in a fresh process (order dependence)"
                                      % len(self.steps), {"kind": "history_vs_fresh", "steps": list(self.steps), "request": s_})
                        last["v"] = v
                        stats.fail(v.detail, v.case)
                        break
            stats.case(key=self.steps, nontrivial=self.nontrivial, classes=["history_with_interleaved_repeat"] if self.nontrivial else ["history"],
                       sample={"history": [s if s[0] != "conv" else ["conv", s[1][:60] + "...", s[2]] for s in self.steps[:8]]})
            self.tmp.__exit__(None, None, None)

    sett = settings(
        max_examples=n,
        stateful_step_count=steps,
        database=None,
        deadline=None,
        report_multiple_bugs=False,
        suppress_health_check=list(HealthCheck),
        phases=[Phase.generate, Phase.shrink],
        print_blob=False,
    )
    try:
        run_state_machine_as_test(hypothesis.seed(seed)(History), settings=sett)
    except Violation:
        v = last["v"]
        stats.fail(v.detail, v.case)
    except BaseException as e:  # noqa
        if "Flaky" in type(e).__name__ and "v" in last:
            # state leaking between conversions makes the history itself irreproducible: that is the violation
            v = last["v"]
            stats.fail(v.detail + " (results also differed when Hypothesis replayed the same history: state leaks between calls)", v.case)
        else:
            raise
    return stats


def _fresh_decode_main():
    """Runs in a fresh interpreter: decode one generated image, print the digest."""
    spec = core.jload_bytes(json.load(sys.stdin))
    with tool.scratch_dir() as d:
        print(decode_generated_image(spec, d))


def fresh_decode(spec):
    env = dict(os.environ)
    env["PYTHONHASHSEED"] = "0"
    p = subprocess.run([sys.executable, "-c", "from vf.props import c12; c12._fresh_decode_main()"], input=core.jdump(spec).encode(),
                       stdout=subprocess.PIPE, stderr=subprocess.PIPE, env=env, cwd=core.VERIF_ROOT)
    if p.returncode != 0:
        raise core.HarnessError("fresh decode failed: " + p.stderr.decode("utf-8", "replace")[-1500:])
    return p.stdout.decode().strip()


@st.composite
def decoder_histories(draw):
    fmts = draw(st.lists(st.sampled_from(["cm3", "cm3", "mge", "rat", "vef", "hrs", "max", "pix"]), min_size=2, max_size=4))
    specs = []
    for f in fmts:
        if f == "cm3":
            specs.append(draw(gi.cm3_spec()))
        elif f == "mge":
            specs.append(draw(gi.mge_spec()))
        elif f == "rat":
            specs.append(draw(gi.rat_spec(low_nibble_limit=8)))
        elif f == "vef":
            specs.append(draw(gi.vef_spec()))
        elif f == "hrs":
            specs.append(draw(gi.hrs_spec(options=True, even_width=True)))
        elif f == "max":
            specs.append(draw(gi.max_spec(options=True)))
        else:
            specs.append(draw(gi.pix_spec()))
    order = draw(st.lists(st.integers(0, len(specs) - 1), min_size=len(specs) + 1, max_size=len(specs) + 3))
    return {"kind": "decoder_history", "specs": specs, "order": list(range(len(specs))) + order}


def check_decoder_history(case):
    specs = case["specs"]
    truth = [fresh_decode(s) for s in specs]
    with tool.scratch_dir() as d:
        for pos, i in enumerate(case["order"]):
            got = decode_generated_image(specs[i], d)
            if got != truth[i]:
                raise Violation("decoding image %d (%s) as step %d of a history gives different bytes than decoding it alone in a fresh process"
                                % (i, specs[i]["fmt"], pos), case)


def campaign_decoders(seed, n, switches=frozenset()):
    stats = Stats()

    def body(case):
        check_decoder_history(case)
        fm = [s["fmt"] for s in case["specs"]]
        stats.case(key=case, nontrivial=True, classes=["decoder_history"] + ["decoder_history_" + f for f in sorted(set(fm))],
                   sample={"formats": fm, "order": case["order"]})

    core.run_hypothesis(body, decoder_histories(), seed=seed, max_examples=n, stats=stats, shrink=False)
    return stats


def plan(tier, seed, switches):
    if tier == "quick":
        return [
            ("campaign_hashseed", [dict(seed=seed, n=150, hash_seeds=[0, 1, 2, 3, 17, 12345, 99991, 4294967295])]),
            ("campaign_history", [dict(seed=seed * 10 + k, n=6, steps=30) for k in range(4)]),
            ("campaign_decoders", [dict(seed=seed * 10 + k, n=5) for k in range(4)]),
        ]
    hs_all = [0, 1, 2, 3, 17, 12345, 99991, 4294967295] + [7919 * k + 5 for k in range(56)]
    return [
        ("campaign_hashseed", [dict(seed=seed * 1000 + k, n=125, hash_seeds=hs_all[4 * k : 4 * k + 4] + [0]) for k in range(16)]),
        ("campaign_history", [dict(seed=seed * 1000 + k, n=40, steps=50) for k in range(16)]),
        ("campaign_decoders", [dict(seed=seed * 1000 + k, n=60) for k in range(16)]),
    ]
