"""Color BASIC names: keyword list (a fact about the source language and the
tool's README: "variables cannot contain keywords") and pools of safe names."""

CB_KEYWORDS = """ABS AND ASC ATN ATTR AUDIO BACKUP BRK BUTTON CHR$ CIRCLE CLEAR CLOAD CLOSE CLS CMP COLOR CONT COPY COS CSAVE
CVN DATA DEF DEL DIM DIR DLOAD DRAW DRIVE DSKI DSKINI DSKO EDIT ELSE END EOF ERLIN ERNO ERR EXEC EXP FIELD FILES FIX FN FOR
FREE GET GO GOSUB GOTO HBUFF HCIRCLE HCLS HCOLOR HDRAW HEX$ HGET HLINE HPAINT HPOINT HPRINT HPUT HRESET HSCREEN HSET HSTAT
IF INKEY$ INPUT INSTR INT JOYSTK KILL LEFT$ LEN LET LINE LIST LLIST LOAD LOC LOCATE LOF LOG LPEEK LPOKE LSET MEM MERGE MID$
MKN$ MOTOR NEW NEXT NOT OFF ON OPEN OR PAINT PALETTE PCLEAR PCLS PCOPY PEEK PLAY PMODE POINT POKE POS PPOINT PRESET PRINT
PSET PUT READ REM RENAME RENUM RESET RESTORE RETURN RGB RIGHT$ RND RSET RUN SAVE SCREEN SET SGN SIN SKIPF SOUND SQR SQRT STEP
STOP STR$ STRING$ SUB TAB TAN THEN TIMER TO TROFF TRON UNLOAD USING USR VAL VARPTR VERIFY WIDTH WRITE""".split()

_KW_CORE = sorted({k.rstrip("$") for k in CB_KEYWORDS}, key=len)


def contains_keyword(name):
    """True when the spelling contains a CB keyword anywhere (CB would tokenise it)."""
    for k in _KW_CORE:
        if k in name:
            return True
    return False


LETTERS = "ABCDEFGHIJKLMNOPQRSTUVWXYZ"
DIGITS = "0123456789"


def all_short_names():
    """All 962 one- and two-character names."""
    out = list(LETTERS)
    for a in LETTERS:
        for b in LETTERS + DIGITS:
            out.append(a + b)
    return out


# BASIC09 reserved words of <= 2 characters that CB accepts as variable names (open finding C07-reserved-names)
B09_RESERVED_SHORT = {"DO", "PI", "SQ"}

SAFE_SHORT = [n for n in all_short_names() if not contains_keyword(n) and n not in B09_RESERVED_SHORT]

# a small pool used by the differential generators (distinct first-two-character prefixes)
POOL = ["A", "B", "C", "D", "X", "Y", "Z", "K", "AB", "B2", "CX", "ZZ", "Q7", "MY", "VL", "W0"]
LONG_POOL = ["ALPHA", "BB4", "CZAR", "XYZ", "KM2", "MYVAL", "QQQQ", "ZED9"]
LONG_POOL = [n for n in LONG_POOL if not contains_keyword(n)]
