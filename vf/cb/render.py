"""Render a Color BASIC AST (see vf/cb/ast.md in DESIGN terms) to source text.

The renderer is the inverse of CB's expression parser: parentheses are
inserted exactly where CB's precedence needs them.  A `layout` object decides
how many blanks go at each token boundary and a few spelling choices
(`?` for PRINT, `'` for REM, line terminator); the canonical layout uses one
blank where one is needed to keep two alphanumeric tokens apart."""

PREC = {"OR": 2, "AND": 3, "NOT": 4, "=": 5, "<>": 5, "<": 5, ">": 5, "<=": 5, ">=": 5, "+": 6, "-": 6, "*": 7, "/": 7, "NEG": 8, "^": 9}


class Layout:
    """Canonical layout."""

    eol = "\n"
    trailing_nul = False
    final_eol = False

    def gap(self, left, right, need):
        return " " if (need or (left and right and _alnum(left[-1]) and _alnum(right[0]))) else ""

    def after_linenum(self):
        return " "

    def print_kw(self):
        return "PRINT"

    def blank_lines(self):
        return 0

    def numeric_inner(self, spelling):
        return spelling

    def hex_inner(self, digits):
        return "&H" + digits

    def line_end(self):
        return ""


class DrawnLayout(Layout):
    """Layout whose every choice comes from a Hypothesis `draw`."""

    def __init__(self, draw, st, inner_blanks=True):
        self._draw = draw
        self._st = st
        self.eol = draw(st.sampled_from(["\n", "\r", "\r\n"]))
        self.trailing_nul = draw(st.booleans())
        self.final_eol = draw(st.booleans())
        self._q = draw(st.booleans())
        self._inner = inner_blanks
        self.changes = 0

    def gap(self, left, right, need):
        n = self._draw(self._st.integers(0, 2))
        if need:
            n = max(1, n)
        if n != (1 if need else 0):
            self.changes += 1
        return " " * n

    def after_linenum(self):
        n = self._draw(self._st.integers(0, 2))
        if n != 1:
            self.changes += 1
        return " " * n

    def print_kw(self):
        if self._q and self._draw(self._st.booleans()):
            self.changes += 1
            return "?"
        return "PRINT"

    def blank_lines(self):
        n = self._draw(self._st.sampled_from([0, 0, 0, 1, 2]))
        if n:
            self.changes += 1
        return n

    def line_end(self):
        # blanks between the last token of a line and the line end
        n = self._draw(self._st.sampled_from([0, 0, 1, 2]))
        if n:
            self.changes += 1
        return " " * n

    def numeric_inner(self, spelling):
        # blanks at the places the tool's own literal patterns admit: before / after E, after the exponent sign
        if not self._inner or "E" not in spelling:
            return spelling
        m, e = spelling.split("E", 1)
        sign = ""
        if e[:1] in "+-":
            sign, e = e[0], e[1:]
        b = lambda: " " * self._draw(self._st.integers(0, 1))
        out = m + b() + "E" + b() + sign + (b() if sign else "") + e
        if out != spelling:
            self.changes += 1
        return out

    def hex_inner(self, digits):
        if not self._inner:
            return "&H" + digits
        b = lambda: " " * self._draw(self._st.integers(0, 1))
        out = "&" + b() + "H" + b() + digits
        if out != "&H" + digits:
            self.changes += 1
        return out


def _alnum(c):
    return c.isalnum() or c in "$."


import re as _re

from vf.cb.names import CB_KEYWORDS as _KW

_KWSET = set(_KW)
_TAIL = _re.compile(r"[A-Z0-9$.]+$")
_HEAD = _re.compile(r"[A-Z0-9$.]+")


def need_blank(left, right):
    """Is at least one blank needed between two rendered pieces?

    Color BASIC finds keywords anywhere, so a keyword may touch what follows it (THEN100, FORI=, PRINTA) and a number may
    touch a following keyword (100ELSE, 1TO5).  A blank is needed after an identifier or number when an identifier follows,
    and after an identifier when a keyword follows (the README: variables cannot contain keywords).  A number directly
    followed by a word starting with E (other than ELSE) would read as an exponent."""
    if not (left and right and _alnum(left[-1]) and _alnum(right[0])):
        return False
    lw = _TAIL.search(left).group(0)
    rw = _HEAD.match(right).group(0)
    if lw in _KWSET and not lw.endswith("$"):
        return False  # keyword followed by anything
    l_is_hex = bool(_re.search(r"&\s*H\s*[0-9A-F]*$", left))
    l_is_number = lw.replace(".", "").isdigit() and not l_is_hex
    r_is_keyword = rw in _KWSET
    if l_is_number and r_is_keyword and (not rw.startswith("E") or rw == "ELSE"):
        return False
    if l_is_hex and r_is_keyword and rw[0] not in "ABCDEF":
        return False  # &HFFTHEN, &H0TO&HF: only a keyword that starts with a hex digit (AND, ELSE ...) would be swallowed by the literal
    return True


class Renderer:
    def __init__(self, layout=None, paren_unary=False, canonical_clear=False):
        self.L = layout or Layout()
        # known-finding switch: CLEAR is copied into a comment with its source layout; keep that statement canonical
        self.canonical_clear = canonical_clear
        # known-finding switch: wrap unary minus / NOT so that the operator's reach is explicit
        self.paren_unary = paren_unary
        self._depth = 0
        self._risky = set()

    # --------------------------------------------------------------- joining
    def j(self, *parts):
        out = ""
        for p in parts:
            if p is None or p == "":
                continue
            if out == "":
                out = p
                continue
            need = need_blank(out, p)
            out += self.L.gap(out, p, need) + p
        return out

    # --------------------------------------------------------------- expressions
    def prec(self, e):
        k = e[0]
        if k == "bin":
            return PREC[e[1]]
        if k == "scat":
            return PREC["+"]
        if k in ("cmp", "scmp"):
            return PREC["="]
        if k == "neg":
            return PREC["NEG"]
        if k in ("not", "bnot"):
            return PREC["NOT"]
        if k == "band":
            return PREC["AND"]
        if k == "bor":
            return PREC["OR"]
        if k == "nz":
            return self.prec(e[1])
        return 10

    def sub(self, e, parent_prec, right=False):
        """Render operand `e` of an operator of precedence parent_prec."""
        p = self.prec(e)
        txt = self.expr(e)
        if p < parent_prec or (right and p == parent_prec):
            return self.j("(", txt, ")")
        if e[0] in ("not", "bnot"):
            # the tool documents that an inner NOT must be parenthesised ("A AND NOT B" is refused)
            return self.j("(", txt, ")")
        if self.paren_unary and e[0] == "neg" and id(e) in self._risky:
            return self.j("(", txt, ")")
        return txt

    def args(self, lst):
        parts = []
        for i, a in enumerate(lst):
            if i:
                parts.append(",")
            parts.append(self.expr(a))
        return self.j("(", *parts, ")")

    def _collect_risky(self, e, risky):
        """Open finding (unary operand reach): the tool reads a unary minus as covering the whole rest of its expression.  Where that rest is
        emitted as flat infix text (+ - * / and comparisons in numeric context) BASIC09 regroups it correctly; it goes wrong when the rest holds
        AND / OR / NOT (emitted in function form) or is the comparison of an IF condition (the tool then appends its own test).  Those minus
        signs - anywhere below such an operator and not isolated by parentheses or a call - are the ones the switch parenthesises."""
        k = e[0]
        if k in ("par", "bpar"):
            self._collect_risky(e[1], False)
        elif k == "fn":
            for a in e[2]:
                self._collect_risky(a, False)
        elif k in ("arr", "sarr"):
            for a in e[2]:
                self._collect_risky(a, False)
        elif k == "varptr":
            self._collect_risky(e[1], False)
        elif k == "bin":
            r = risky or e[1] in ("AND", "OR")
            self._collect_risky(e[2], r)
            self._collect_risky(e[3], r)
        elif k in ("cmp", "scmp", "band", "bor"):
            for c in e[1:] if k in ("band", "bor") else e[2:]:
                self._collect_risky(c, True)
        elif k in ("not", "bnot"):
            self._collect_risky(e[1], True)
        elif k == "nz":
            self._collect_risky(e[1], risky)
        elif k == "scat":
            self._collect_risky(e[1], risky)
            self._collect_risky(e[2], risky)
        elif k == "neg":
            if risky:
                self._risky.add(id(e))
            self._collect_risky(e[1], risky)

    def expr(self, e):
        if self._depth == 0 and self.paren_unary:
            self._risky = set()
            self._collect_risky(e, False)
        self._depth += 1
        try:
            return self._expr(e)
        finally:
            self._depth -= 1

    def _expr(self, e):
        k = e[0]
        if k == "num":
            return self.L.numeric_inner(e[1])
        if k == "hex":
            return self.L.hex_inner(e[1])
        if k == "str":
            return '"' + e[1] + '"'
        if k == "var":
            return e[1]
        if k == "svar":
            return e[1] + "$"
        if k == "arr":
            return self.j(e[1], self.args(e[2]))
        if k == "sarr":
            return self.j(e[1] + "$", self.args(e[2]))
        if k == "par" or k == "bpar":
            return self.j("(", self.expr(e[1]), ")")
        if k == "bin":
            p = PREC[e[1]]
            return self.j(self.sub(e[2], p), e[1], self.sub(e[3], p, right=True))
        if k == "scat":
            # concatenation is associative and the tool's grammar has no parenthesised string expression: render flat
            return self.j(self.expr(e[1]), "+", self.expr(e[2]))
        if k in ("cmp", "scmp"):
            p = PREC["="]
            return self.j(self.sub(e[2], p), e[1], self.sub(e[3], p, right=True))
        if k == "neg":
            inner = e[1]
            txt = self.expr(inner)
            if self.prec(inner) < PREC["NEG"] or (self.paren_unary and inner[0] == "bin" and inner[1] == "^") or inner[0] == "neg":
                txt = self.j("(", txt, ")")
            return self.j("-", txt)
        if k in ("not", "bnot"):
            inner = e[1]
            txt = self.expr(inner)
            if self.prec(inner) < PREC["NOT"] or inner[0] in ("not", "bnot"):
                txt = self.j("(", txt, ")")  # (the README: a NOT inside an expression must be parenthesised - that includes NOT NOT x)
            return self.j("NOT", txt)
        if k == "band":
            return self.j(self.sub(e[1], PREC["AND"]), "AND", self.sub(e[2], PREC["AND"], right=True))
        if k == "bor":
            return self.j(self.sub(e[1], PREC["OR"]), "OR", self.sub(e[2], PREC["OR"], right=True))
        if k == "nz":
            return self.expr(e[1])
        if k == "fn":
            name = e[1]
            if name == "INKEY$":
                return "INKEY$"
            if name == "ERNO":
                return "ERNO"
            return self.j(name, self.args(e[2]))
        if k == "varptr":
            return self.j("VARPTR", "(", self.expr(e[1]), ")")
        raise ValueError("cannot render expression %r" % (e,))

    # --------------------------------------------------------------- statements
    def branch(self, b):
        if b[0] == "line":
            if len(b) > 2:  # THEN <line>:<statements> - the statements are unreachable in CB (witness shape only)
                return self.j(str(b[1]), ":", self.stmts(b[2]))
            return str(b[1])
        return self.stmts(b[1])

    def stmts(self, lst):
        """Statements of one line (or branch), separated by colons.  An ["empty"] statement renders as nothing: '::', ':ELSE', a colon at the
        line end.  Blanks between an unquoted / empty DATA item and the colon that ends the DATA statement are content, not layout."""
        out = ""
        tail_data = False  # does `out` end in the last item of such a DATA statement?

        def colon(o):
            if tail_data or not o:
                return o + ":"
            return self.j(o, ":")

        for i, s in enumerate(lst):
            if s[0] == "empty":
                if i:
                    out = colon(out)
                    tail_data = False
                continue
            t = self.stmt(s)
            if i == 0:
                out = t
            elif s[0] == "rem" and len(s) > 3 and s[3] == "nocolon" and s[2] == "'" and not tail_data and lst[i - 1][0] != "empty":
                out = self.j(out, t)  # an apostrophe comment needs no colon before it
            else:
                out = colon(out)
                tail_data = False
                out = self.j(out, t)
            tail_data = s[0] == "data" and bool(s[1]) and s[1][-1][0] in ("u", "e")
        return out

    def data_item(self, it):
        k = it[0]
        if k == "q":
            return '"' + it[1] + '"'
        if k == "u":
            return it[1]
        if k == "n":
            return it[1]
        if k == "h":
            return "&H" + it[1]
        if k == "e":
            return ""
        raise ValueError(it)

    def coords(self, x, y):
        return self.j("(", self.expr(x), ",", self.expr(y), ")")

    def stmt(self, s):
        k = s[0]
        j = self.j
        if k == "let":
            if len(s) > 4 and s[4] == "open":
                # string literal without its closing quote: legal as the last thing on a line (the generator places it there)
                return j("LET" if s[3] else None, self.expr(s[1]), "=", '"' + s[2][1])
            return j("LET" if s[3] else None, self.expr(s[1]), "=", self.expr(s[2]))
        if k == "if":
            out = j("IF", self.expr(s[1]), "THEN", self.branch(s[2]))
            if s[3] is not None:
                out = j(out, "ELSE", self.branch(s[3]))
            return out
        if k == "for":
            out = j("FOR", s[1], "=", self.expr(s[2]), "TO", self.expr(s[3]))
            if s[4] is not None:
                out = j(out, "STEP", self.expr(s[4]))
            return out
        if k == "next":
            parts = []
            for i, v in enumerate(s[1]):
                if i:
                    parts.append(",")
                parts.append(v)
            return j("NEXT", *parts)
        if k in ("goto", "gosub"):
            return j(k.upper(), str(s[1]))
        if k == "on":
            parts = []
            for i, n in enumerate(s[3]):
                if i:
                    parts.append(",")
                parts.append(str(n))
            return j("ON", self.expr(s[1]), s[2], *parts)
        if k in ("return", "end", "stop", "restore", "tron", "troff"):
            return k.upper()
        if k == "onerr":
            return j("ON", "ERR", "GOTO", str(s[1]))
        if k == "onbrk":
            return j("ON", "BRK", "GOTO", str(s[1]))
        if k in ("print", "printat"):
            parts = [self.L.print_kw()]
            items = s[1]
            if k == "printat":
                parts += ["@", self.expr(s[1])]
                items = s[2]
                if items is not None:
                    parts.append(",")
                else:
                    items = []
            for it in items:
                parts.append(it[1] if it[0] == "s" else self.expr(it[1]))
            return j(*parts)
        if k == "input":
            parts = ["LINE"] if s[3] else []
            parts.append("INPUT")
            if s[1] is not None:
                parts += ['"' + s[1] + '"', ";"]
            for i, t in enumerate(s[2]):
                if i:
                    parts.append(",")
                parts.append(self.expr(t))
            return j(*parts)
        if k == "read":
            parts = ["READ"]
            for i, t in enumerate(s[1]):
                if i:
                    parts.append(",")
                parts.append(self.expr(t))
            return j(*parts)
        if k == "data":
            # DATA items are content: only leading blanks of an item are layout
            txt = "DATA"
            for i, it in enumerate(s[1]):
                if i:
                    txt += ","
                lead = self.L.gap(txt, "x", i == 0 and it[0] != "q" and it[0] != "e")
                body = self.data_item(it)
                if it[0] == "e" and not (i == 0):
                    lead = ""
                txt += lead + body
                if it[0] in ("q", "n", "h"):
                    txt += self.L.gap(body, ",", False)
            return txt
        if k == "dim":
            parts = ["DIM"]
            for i, d in enumerate(s[1]):
                if i:
                    parts.append(",")
                name, kind, bounds = d
                nm = name + ("$" if kind in ("svar", "sarr") else "")
                if kind in ("arr", "sarr"):
                    bp = []
                    for q, b in enumerate(bounds):
                        if q:
                            bp.append(",")
                        bp.append(str(b[1]) if b[0] == "d" else self.L.hex_inner(b[1]))
                    parts.append(j(nm, "(", *bp, ")"))
                else:
                    parts.append(nm)
            return j(*parts)
        if k == "rem":
            return s[2] + s[1]
        if k == "clear":
            if self.canonical_clear:
                return Renderer(Layout(), self.paren_unary).stmt(s)
            return j("CLEAR", self.expr(s[1]) if s[1] is not None else None)
        if k == "poke":
            return j("POKE", self.expr(s[1]), ",", self.expr(s[2]))
        if k == "sound":
            return j("SOUND", self.expr(s[1]), ",", self.expr(s[2]))
        if k == "dev":
            return self.dev(s[1], s[2])
        raise ValueError("cannot render statement %r" % (s,))

    def dev(self, kind, o):
        j, e = self.j, self.expr
        opt = lambda x: e(x) if x is not None else None
        if kind in ("CLS", "HSCREEN", "HCLS", "WIDTH"):
            return j(kind, opt(o.get("a")))
        if kind == "LOCATE":
            return j("LOCATE", e(o["x"]), ",", e(o["y"]))
        if kind == "ATTR":
            parts = ["ATTR", e(o["f"]), ",", e(o["b"])]
            for f in o.get("flags", []):
                parts += [",", f]
            return j(*parts)
        if kind == "PALETTE":
            return j("PALETTE", e(o["r"]), ",", e(o["c"]))
        if kind in ("PALETTE RGB", "PALETTE CMP"):
            return j("PALETTE", kind.split()[1])
        if kind in ("RGB", "CMP"):
            return kind
        if kind == "HCOLOR":
            return j("HCOLOR", e(o["f"]), *([",", e(o["b"])] if o.get("b") is not None else []))
        if kind == "HCIRCLE":
            parts = ["HCIRCLE", self.coords(o["x"], o["y"]), ",", e(o["r"])]
            form = o.get("form", "circle")
            if form == "circle":
                if o.get("c") is not None:
                    parts += [",", e(o["c"])]
            else:
                parts += [",", opt(o.get("c")), ",", e(o["hw"])]
                if form == "arc":
                    parts += [",", e(o["s"]), ",", e(o["e"])]
            return j(*parts)
        if kind == "HLINE":
            parts = ["HLINE"]
            if o.get("x0") is not None:
                parts.append(self.coords(o["x0"], o["y0"]))
            parts += ["-", self.coords(o["x1"], o["y1"]), ",", o["mode"]]
            if o.get("box"):
                parts += [",", o["box"]]
            return j(*parts)
        if kind in ("HSET", "HRESET", "SET", "RESET"):
            parts = [kind, "(", e(o["x"]), ",", e(o["y"])]
            if o.get("c") is not None:
                parts += [",", e(o["c"])]
            parts.append(")")
            return j(*parts)
        if kind == "HPAINT":
            parts = ["HPAINT", self.coords(o["x"], o["y"])]
            if o.get("c") is not None:
                parts += [",", e(o["c"])]
                if o.get("b") is not None:
                    parts += [",", e(o["b"])]
            return j(*parts)
        if kind == "HPRINT":
            return j("HPRINT", self.coords(o["x"], o["y"]), ",", e(o["t"]))
        if kind in ("HDRAW", "PLAY"):
            return j(kind, e(o["s"]))
        if kind == "HBUFF":
            return j("HBUFF", e(o["n"]), ",", e(o["size"]))
        if kind == "HGET":
            return j("HGET", self.coords(o["x0"], o["y0"]), "-", self.coords(o["x1"], o["y1"]), ",", e(o["n"]))
        if kind == "HPUT":
            return j("HPUT", self.coords(o["x0"], o["y0"]), "-", self.coords(o["x1"], o["y1"]), ",", e(o["n"]), ",", o["action"])
        raise ValueError("cannot render device statement %r" % kind)

    # --------------------------------------------------------------- programs
    def program(self, prog):
        """prog: list of [lineno, [stmts]] -> source text"""
        L = self.L
        out = []
        for lineno, stmts in prog:
            out.append(str(lineno) + L.after_linenum() + self.stmts(stmts) + ("" if _content_tail(stmts) else L.line_end()))
            for _ in range(L.blank_lines()):
                out.append("")
        while out and out[-1] == "":
            out.pop()
        text = L.eol.join(out)
        if L.final_eol:
            text += L.eol
        if L.trailing_nul:
            text += "\x00"
        return text


def _content_tail(stmts):
    """Does the line end inside content (comment, unquoted / empty DATA item, open string literal)?  Blanks there are not layout."""
    if not stmts:
        return False
    last = stmts[-1]
    if last[0] == "if":
        br = last[3] if last[3] is not None else last[2]
        if br[0] == "line":
            return _content_tail(br[2]) if len(br) > 2 else False
        return _content_tail(br[1])
    if last[0] == "rem":
        return True
    if last[0] == "data":
        return bool(last[1]) and last[1][-1][0] in ("u", "e")
    return last[0] == "let" and len(last) > 4


def render(prog, layout=None, paren_unary=False, canonical_clear=False):
    return Renderer(layout, paren_unary, canonical_clear).program(prog)
