"""Reference interpreter for Color BASIC programs given as ASTs (facts CB-1..CB-9
of DESIGN.md 3.1).  Out-of-domain situations (anything CB itself would stop on,
and a few README preconditions) raise sem.DomainError: the case is then
counted as trivial and not compared."""
import math
from fractions import Fraction

from vf import sem
from vf.sem import DomainError, FormatDependent, StepLimit

CONVERTIBLE = {"INT", "VAL", "STR$", "HEX$", "INSTR", "STRING$", "INKEY$", "BUTTON", "JOYSTK", "POINT"}


class Frame:
    def __init__(self, kind, **kw):
        self.kind = kind
        self.__dict__.update(kw)


class CBInterp:
    def __init__(self, prog, script=None, step_limit=20000, str_limit=255, init=None):
        self.prog = prog
        self.script = {k: list(v) for k, v in (script or {}).items()}
        self.step_limit = step_limit
        self.str_limit = str_limit
        self.vars = {}
        self.arrays = {}
        self.used_before_dim = set()
        self.events = []  # observable trace
        self.calls = []  # convertible-function evaluations, in order
        self.steps = 0
        self.ended = None
        self.data = []
        self.data_ptr = 0
        self.stack = []
        self.uninit_reads = False
        self.branch_log = []
        self.loop_iterations = 0
        self.backward_jumps = 0
        self.gosubs = 0
        self.zero_trip_for = 0
        self.unwritten_reads = set()
        self.lines = []
        self.index = {}
        for i, (ln, stmts) in enumerate(prog):
            if ln in self.index:
                raise DomainError("duplicate line number")
            self.index[ln] = i
            ops = []
            self._flatten(stmts, ops)
            self.lines.append(ops)
            self._collect_data(stmts)
        if init:
            for k, v in init.items():
                self.vars[k] = v

    # ---------------------------------------------------------------- setup
    def _collect_data(self, stmts):
        for s in stmts:
            if s[0] == "data":
                self.data.extend(s[1])

    def _flatten(self, stmts, ops):
        """CB executes a line as a token stream: a false IF skips to the matching
        ELSE or the end of the line; reaching ELSE in normal flow skips to the end of the line."""
        for s in stmts:
            if s[0] == "if":
                j = len(ops)
                ops.append(None)
                self._branch(s[2], ops)
                if s[3] is not None:
                    ops.append(("eol",))
                    ops[j] = ("iffalse", s[1], len(ops))
                    self._branch(s[3], ops)
                else:
                    ops[j] = ("iffalse", s[1], None)
                # an IF is always the last statement of its statement list in CB
            else:
                ops.append(("stmt", s))

    def _branch(self, b, ops):
        if b[0] == "line":
            ops.append(("stmt", ["goto", b[1]]))
            if len(b) > 2:
                self._flatten(b[2], ops)
        else:
            self._flatten(b[1], ops)

    # ---------------------------------------------------------------- values
    @staticmethod
    def key(name, kind):
        return (name[:2], kind)

    def get_scalar(self, name, kind):
        k = self.key(name, kind)
        if k not in self.vars:
            self.unwritten_reads.add(k)
            return "" if kind == "s" else Fraction(0)
        return self.vars[k]

    def set_scalar(self, name, kind, v):
        if kind == "s":
            self._chk_str(v)
        self.vars[self.key(name, kind)] = v

    def _chk_str(self, v):
        n = len(v) if not sem.has_tok(v) else len(v.replace(sem.TOK_OPEN, "").replace(sem.TOK_CLOSE, ""))
        if n > self.str_limit:
            raise DomainError("string longer than the storage limit")

    def _array(self, name, kind, nidx):
        k = self.key(name, kind)
        if k not in self.arrays:
            self.arrays[k] = {"bounds": [10] * nidx, "data": {}, "implicit": True}
        a = self.arrays[k]
        if len(a["bounds"]) != nidx:
            raise DomainError("wrong number of subscripts")
        return a

    def _subs(self, idx_exprs, a_bounds=None):
        out = []
        for e in idx_exprs:
            v = self.num(e)
            if not sem.is_integer(v):
                raise DomainError("non-integral subscript")  # uncertain zone U-4
            out.append(int(v))
        return tuple(out)

    def get_elem(self, name, kind, idx):
        subs = self._subs(idx)
        a = self._array(name, kind, len(subs))
        for s, b in zip(subs, a["bounds"]):
            if not 0 <= s <= b:
                raise DomainError("subscript out of range")
        if subs not in a["data"]:
            self.unwritten_reads.add((name[:2], kind, subs))
        return a["data"].get(subs, "" if kind == "s" else Fraction(0))

    def set_elem(self, name, kind, idx, v, subs=None):
        subs = self._subs(idx) if subs is None else subs
        a = self._array(name, kind, len(subs))
        for s, b in zip(subs, a["bounds"]):
            if not 0 <= s <= b:
                raise DomainError("subscript out of range")
        if kind == "s":
            self._chk_str(v)
        a["data"][subs] = v

    def script_next(self, name):
        q = self.script.get(name)
        if not q:
            raise DomainError("script for %s exhausted" % name)
        return q.pop(0)

    # ---------------------------------------------------------------- expressions
    def num(self, e):
        v = self.eval(e)
        if isinstance(v, str):
            raise DomainError("type mismatch")
        if isinstance(v, bool):
            return Fraction(-1 if v else 0)
        return v

    def string(self, e):
        v = self.eval(e)
        if not isinstance(v, str):
            raise DomainError("type mismatch")
        return v

    def truth(self, e):
        v = self.eval(e)
        if isinstance(v, bool):
            return v
        if isinstance(v, str):
            raise DomainError("type mismatch")
        return v != 0

    def call(self, name, args):
        self.calls.append((name, list(args)))

    def eval(self, e):
        k = e[0]
        if k == "num":
            return sem.lit(e[2]) if not isinstance(e[2], str) else Fraction(e[2])
        if k == "hex":
            return Fraction(int(e[1], 16))
        if k == "str":
            return e[1]
        if k == "var":
            return self.get_scalar(e[1], "n")
        if k == "svar":
            return self.get_scalar(e[1], "s")
        if k == "arr":
            return self.get_elem(e[1], "n", e[2])
        if k == "sarr":
            return self.get_elem(e[1], "s", e[2])
        if k in ("par", "bpar"):
            return self.eval(e[1])
        if k == "nz":
            # the same robustness rule as for written comparisons (a value that differs from 0 only by rounding noise is outside the domain);
            # the translation tests '<> 0.0', which goes through sem.compare as well
            return sem.compare("<>", self.num(e[1]), Fraction(0))
        if k == "neg":
            return -self.num(e[1])
        if k == "not":
            return sem.logic("NOT", self.num(e[1]))
        if k == "bnot":
            return not self.truth(e[1])
        if k == "band":
            a = self.truth(e[1])
            b = self.truth(e[2])  # CB evaluates both sides
            return a and b
        if k == "bor":
            a = self.truth(e[1])
            b = self.truth(e[2])
            return a or b
        if k == "cmp":
            return sem.compare(e[1], self.num(e[2]), self.num(e[3]))
        if k == "scmp":
            return sem.compare(e[1], self.string(e[2]), self.string(e[3]))
        if k == "scat":
            r = self.string(e[1]) + self.string(e[2])
            self._chk_str(r)
            return r
        if k == "bin":
            op = e[1]
            a = self.num(e[2])
            b = self.num(e[3])
            if op in ("AND", "OR"):
                return sem.logic(op, a, b)
            if op in ("=", "<>", "<", ">", "<=", ">="):
                return Fraction(-1 if sem.compare(op, a, b) else 0)
            return sem.arith(op, a, b)
        if k == "fn":
            return self.func(e[1], e[2])
        if k == "varptr":
            raise DomainError("VARPTR has no portable value")
        raise ValueError("cannot evaluate %r" % (e,))

    def func(self, name, args):
        if name in ("ABS", "SGN", "INT", "SQR", "SIN", "COS", "TAN", "ATN", "EXP", "LOG", "FIX"):
            x = self.num(args[0])
            if name == "INT":
                self.call("INT", [x])
                return sem.mathfn("INT", x)
            if name == "FIX":
                return sem.mathfn("TRUNC", x)
            return sem.mathfn(name, x)
        if name == "LEN":
            return Fraction(len(sem.plain(self.string(args[0]), "LEN")))
        if name == "ASC":
            s = sem.plain(self.string(args[0]), "ASC")
            if s == "":
                raise DomainError("ASC of empty string")
            return Fraction(ord(s[0]))
        if name == "VAL":
            s = self.string(args[0])
            self.call("VAL", [s])
            return sem.val_of(s)
        if name == "CHR$":
            x = self.num(args[0])
            if not sem.is_integer(x) or not 0 <= int(x) <= 255:
                raise DomainError("CHR$ argument")
            if int(x) in (0, 10, 13, 34):
                raise DomainError("CHR$ of a control character / quote (not comparable through text)")
            return chr(int(x))
        if name == "STR$":
            x = self.num(args[0])
            self.call("STR$", [x])
            return sem.numtok(x)
        if name == "HEX$":
            x = self.num(args[0])
            if not sem.is_integer(x):
                raise DomainError("HEX$ of a non-integer")
            self.call("HEX$", [x])
            return sem.hex_of(x)
        if name in ("LEFT$", "RIGHT$"):
            s = self.string(args[0])
            n = self.num(args[1])
            if not sem.is_integer(n) or not 0 <= int(n) <= 255:
                raise DomainError("%s count" % name)
            s = sem.plain(s, name)
            n = int(n)
            if n == 0:
                raise DomainError("%s with count 0 (BASIC09 edge not modelled)" % name)
            return s[:n] if name == "LEFT$" else (s[-n:] if n < len(s) else s)
        if name == "MID$":
            s = self.string(args[0])
            m = self.num(args[1])
            if not sem.is_integer(m) or not 1 <= int(m) <= 255:
                raise DomainError("MID$ start")
            m = int(m)
            s = sem.plain(s, "MID$")
            if len(args) > 2:
                n = self.num(args[2])
                if not sem.is_integer(n) or not 0 <= int(n) <= 255:
                    raise DomainError("MID$ length")
                n = int(n)
                if n == 0:
                    raise DomainError("MID$ with length 0 (BASIC09 edge not modelled)")
            else:
                n = 255
            if m > len(s):
                raise DomainError("MID$ start beyond the string (BASIC09 edge not modelled)")
            return s[m - 1 : m - 1 + n]
        if name == "INSTR":
            i = self.num(args[0])
            s = self.string(args[1])
            p = self.string(args[2])
            if not sem.is_integer(i) or not 1 <= int(i) <= 255:
                raise DomainError("INSTR start")
            self.call("INSTR", [i, s, p])
            s = sem.plain(s, "INSTR")
            p = sem.plain(p, "INSTR")
            if p == "":
                raise DomainError("INSTR with empty pattern")
            i = int(i)
            if i > len(s):
                return Fraction(0)
            return Fraction(s.find(p, i - 1) + 1)
        if name == "STRING$":
            n = self.num(args[0])
            s = self.string(args[1])
            if not sem.is_integer(n) or not 0 <= int(n) <= 255:
                raise DomainError("STRING$ count")
            self.call("STRING$", [n, s])
            s = sem.plain(s, "STRING$")
            if s == "":
                raise DomainError("STRING$ of empty string")
            r = s[0] * int(n)
            self._chk_str(r)
            return r
        if name == "INKEY$":
            self.call("INKEY$", [])
            return self.script_next("INKEY$")
        if name in ("BUTTON", "JOYSTK"):
            x = self.num(args[0])
            self.call(name, [x])
            return Fraction(self.script_next(name))
        if name == "POINT":
            x = self.num(args[0])
            y = self.num(args[1])
            self.call("POINT", [x, y])
            return Fraction(self.script_next("POINT"))
        if name in ("PEEK", "RND", "ERNO", "MEM", "TIMER"):
            raise DomainError("%s is not a deterministic function of the program" % name)
        raise ValueError("unknown function %s" % name)

    # ---------------------------------------------------------------- assignment
    def assign(self, target, v):
        k = target[0]
        if k == "var":
            self.set_scalar(target[1], "n", v)
        elif k == "svar":
            self.set_scalar(target[1], "s", v)
        elif k == "arr":
            self.set_elem(target[1], "n", target[2], v)
        elif k == "sarr":
            self.set_elem(target[1], "s", target[2], v)
        else:
            raise ValueError(target)

    # ---------------------------------------------------------------- execution
    def run(self):
        try:
            self._run()
        except RecursionError:
            raise DomainError("expression too deep")
        return self

    def _goto(self, ln, cur):
        if ln not in self.index:
            raise DomainError("undefined line")
        i = self.index[ln]
        if i <= cur:
            self.backward_jumps += 1
        return (i, 0)

    def _run(self):
        pc = (0, 0)
        while True:
            li, oi = pc
            if li >= len(self.lines):
                self.ended = "fell_off_end"
                return
            ops = self.lines[li]
            if oi >= len(ops):
                pc = (li + 1, 0)
                continue
            op = ops[oi]
            self.steps += 1
            if self.steps > self.step_limit:
                raise StepLimit()
            if op[0] == "eol":
                pc = (li + 1, 0)
                continue
            if op[0] == "iffalse":
                t = self.truth(op[1])
                self.branch_log.append(t)
                if t:
                    pc = (li, oi + 1)
                elif op[2] is None:
                    pc = (li + 1, 0)
                else:
                    pc = (li, op[2])
                continue
            s = op[1]
            nxt = (li, oi + 1)
            k = s[0]
            if k == "let":
                tk = s[1][0]
                # LET locates its target (evaluating the subscripts) before it evaluates the right-hand side
                subs = self._subs(s[1][2]) if tk in ("arr", "sarr") else None
                v = self.eval(s[2])
                if isinstance(v, bool):
                    v = Fraction(-1 if v else 0)
                if (tk in ("svar", "sarr")) != isinstance(v, str):
                    raise DomainError("type mismatch")
                if subs is not None:
                    self.set_elem(s[1][1], "s" if tk == "sarr" else "n", None, v, subs=subs)
                else:
                    self.assign(s[1], v)
            elif k == "goto":
                pc = self._goto(s[1], li)
                continue
            elif k == "gosub":
                self.gosubs += 1
                self.stack.append(Frame("gosub", ret=nxt))
                pc = self._goto(s[1], li)
                continue
            elif k == "return":
                while self.stack and self.stack[-1].kind != "gosub":
                    self.stack.pop()
                if not self.stack:
                    raise DomainError("RETURN without GOSUB")
                pc = self.stack.pop().ret
                continue
            elif k == "on":
                v = self.num(s[1])
                if not sem.is_integer(v):
                    raise DomainError("non-integral ON selector")  # U-4
                n = int(v)
                if n < 0 or n > 255:
                    raise DomainError("ON selector out of range")
                if 1 <= n <= len(s[3]):
                    if s[2] == "GOSUB":
                        self.gosubs += 1
                        self.stack.append(Frame("gosub", ret=nxt))
                    pc = self._goto(s[3][n - 1], li)
                    continue
            elif k == "for":
                start = self.num(s[2])
                limit = self.num(s[3])
                step = self.num(s[4]) if s[4] is not None else Fraction(1)
                self.set_scalar(s[1], "n", start)
                key = self.key(s[1], "n")
                for i in range(len(self.stack) - 1, -1, -1):
                    f = self.stack[i]
                    if f.kind == "gosub":
                        break
                    if f.kind == "for" and f.var == key:
                        del self.stack[i:]
                        break
                if start > limit if step >= 0 else start < limit:
                    self.zero_trip_for += 1  # CB runs the body once, BASIC09 would not (open finding C02-for-zero-trip)
                self.stack.append(Frame("for", var=key, name=s[1], limit=limit, step=step, body=nxt))
            elif k == "next":
                names = s[1] or [None]
                jumped = False
                for nm in names:
                    while True:
                        if not self.stack or self.stack[-1].kind != "for":
                            raise DomainError("NEXT without FOR")
                        f = self.stack[-1]
                        if nm is None or f.var == self.key(nm, "n"):
                            break
                        self.stack.pop()  # CB discards inner loops (interleaved NEXT: README precondition)
                        raise DomainError("NEXT does not match the innermost FOR")
                    v = self.get_scalar(f.name, "n") + f.step
                    self.set_scalar(f.name, "n", v)
                    if (f.step >= 0 and v <= f.limit) or (f.step < 0 and v >= f.limit):
                        self.loop_iterations += 1
                        pc = f.body
                        jumped = True
                        break
                    self.stack.pop()
                if jumped:
                    continue
            elif k in ("end", "stop"):
                self.ended = k
                return
            elif k in ("print", "printat"):
                items = s[1]
                if k == "printat":
                    loc = self.num(s[1])
                    self.events.append(("at", loc))
                    items = s[2] or []
                self.events.append(self._print(items))
            elif k == "input":
                shown = (s[1] or "") + ("" if s[3] else "? ")
                vals = []
                for t in s[2]:
                    want_str = t[0] in ("svar", "sarr")
                    v = self.script_next("INPUT$" if want_str else "INPUT")
                    if not want_str:
                        v = Fraction(v)
                    vals.append(v)
                self.events.append(("input", shown, len(s[2])))
                for t, v in zip(s[2], vals):
                    self.assign(t, v)
            elif k == "read":
                for t in s[1]:
                    if self.data_ptr >= len(self.data):
                        raise DomainError("out of DATA")
                    it = self.data[self.data_ptr]
                    self.data_ptr += 1
                    want_str = t[0] in ("svar", "sarr")
                    self.assign(t, self._data_value(it, want_str))
            elif k == "restore":
                self.data_ptr = 0
            elif k == "dim":
                for name, kind, bounds in s[1]:
                    if kind in ("arr", "sarr"):
                        kk = self.key(name, "s" if kind == "sarr" else "n")
                        if kk in self.arrays:
                            raise DomainError("array dimensioned twice or after use")
                        bs = [b[1] if b[0] == "d" else int(b[1], 16) for b in bounds]
                        self.arrays[kk] = {"bounds": bs, "data": {}, "implicit": False}
            elif k in ("data", "rem", "clear", "tron", "troff", "onerr", "onbrk", "empty"):
                pass
            elif k == "poke":
                a = self.num(s[1])
                v = self.num(s[2])
                self.events.append(("poke", a, v))
            elif k == "sound":
                f = self.num(s[1])
                d = self.num(s[2])
                self.events.append(("dev", "SOUND", {"f": f, "d": d}))
            elif k == "dev":
                vals = {}
                for role in DEV_ORDER.get(s[1], sorted(s[2])):
                    x = s[2].get(role)
                    if isinstance(x, list) and x and isinstance(x[0], str) and role not in ("flags",):
                        vals[role] = self.eval(x)
                    elif x is not None:
                        vals[role] = x
                self.events.append(("dev", s[1], vals))
            else:
                raise ValueError("cannot execute %r" % (s,))
            pc = nxt

    def _data_value(self, it, want_str):
        k = it[0]
        if k == "e":
            return "" if want_str else Fraction(0)
        if want_str:
            if k == "q":
                return it[1]
            if k == "u":
                return it[1].lstrip(" ")
            raise DomainError("numeric DATA item read into a string variable (outside the documented fragment)")
        if k == "n":
            return sem.lit(it[2])
        if k == "h":
            return Fraction(int(it[1], 16))
        raise DomainError("string DATA item read into a numeric variable")

    def _print(self, items):
        out = []
        prev_item = False
        for it in items:
            if it[0] == "s":
                out.append(("sep", it[1]))
                prev_item = False
            else:
                if prev_item:
                    out.append(("sep", ";"))  # juxtaposed items print like items separated by ';'
                prev_item = True
                e = it[1]
                if e[0] == "fn" and e[1] == "TAB":
                    out.append(("tab", self.num(e[2][0])))
                    continue
                v = self.eval(e)
                if isinstance(v, bool):
                    v = Fraction(-1 if v else 0)
                if not isinstance(v, str):
                    self.call("PRINTNUM", [v])  # numbers are printed through the formatter
                    v = sem.numtok(v)
                if v != "":
                    out.append(("text", v))
        newline = not (items and items[-1][0] == "s")
        return ("print", tuple(out), newline)


# evaluation order of the operands of device statements (left to right in the source)
DEV_ORDER = {
    "CLS": ["a"], "HSCREEN": ["a"], "HCLS": ["a"], "WIDTH": ["a"], "LOCATE": ["x", "y"], "ATTR": ["f", "b", "flags"],
    "PALETTE": ["r", "c"], "HCOLOR": ["f", "b"], "HCIRCLE": ["x", "y", "r", "c", "hw", "s", "e", "form"],
    "HLINE": ["x0", "y0", "x1", "y1", "mode", "box"], "HSET": ["x", "y", "c"], "HRESET": ["x", "y"], "SET": ["x", "y", "c"],
    "RESET": ["x", "y"], "HPAINT": ["x", "y", "c", "b"], "HPRINT": ["x", "y", "t"], "HDRAW": ["s"], "PLAY": ["s"],
    "HBUFF": ["n", "size"], "HGET": ["x0", "y0", "x1", "y1", "n"], "HPUT": ["x0", "y0", "x1", "y1", "n", "action"],
}


def run_cb(prog, **kw):
    return CBInterp(prog, **kw).run()
