"""Shared plumbing: statistics, violations, Hypothesis driver, sharding."""
import hashlib
import json
import os
import sys
import time
import traceback
from collections import Counter

VERIF_ROOT = os.path.dirname(os.path.dirname(os.path.abspath(__file__)))


def jdump(obj):
    return json.dumps(obj, sort_keys=True, default=_jdefault, ensure_ascii=True)


def _jdefault(o):
    if isinstance(o, (bytes, bytearray)):
        return {"__bytes__": bytes(o).hex()}
    if isinstance(o, (set, frozenset)):
        return sorted(o, key=repr)
    if isinstance(o, tuple):
        return list(o)
    if hasattr(o, "to_json"):
        return o.to_json()
    return repr(o)


def jload_bytes(o):
    """Inverse of the bytes encoding used by jdump (recursive)."""
    if isinstance(o, dict):
        if set(o.keys()) == {"__bytes__"}:
            return bytes.fromhex(o["__bytes__"])
        return {k: jload_bytes(v) for k, v in o.items()}
    if isinstance(o, list):
        return [jload_bytes(v) for v in o]
    return o


def digest(obj):
    if not isinstance(obj, (bytes, bytearray)):
        obj = jdump(obj).encode("utf-8", "replace")
    return hashlib.sha1(obj).hexdigest()[:16]


class Violation(Exception):
    """The property failed on a concrete case.  `case` must be JSON-able and
    sufficient for `check_case` of the property module to reproduce it."""

    def __init__(self, detail, case=None):
        super().__init__(detail)
        self.detail = detail
        self.case = case


class HarnessError(Exception):
    pass


class Stats:
    """Mergeable record of what a campaign covered."""

    MAX_SAMPLES = 6

    def __init__(self):
        self.evaluations = 0
        self.nontrivial = set()
        self.classes = Counter()
        self.excluded = Counter()
        self.known = Counter()
        self.inconclusive = Counter()
        self.samples = []
        self.failures = []  # list of dict(case=..., detail=...)
        self.notes = []
        self.payload = []  # property-specific data merged across shards (see finalize hooks)
        self.exhaustive = None

    def case(self, key=None, nontrivial=False, classes=(), sample=None):
        self.evaluations += 1
        if nontrivial:
            self.nontrivial.add(digest(key if key is not None else sample))
        for c in classes:
            self.classes[c] += 1
        if sample is not None and len(self.samples) < self.MAX_SAMPLES and (nontrivial or not self.samples):
            self.samples.append(sample)

    def merge(self, other):
        self.evaluations += other.evaluations
        self.nontrivial |= other.nontrivial
        self.classes.update(other.classes)
        self.excluded.update(other.excluded)
        self.known.update(other.known)
        self.inconclusive.update(other.inconclusive)
        for s in other.samples:
            if len(self.samples) < self.MAX_SAMPLES:
                self.samples.append(s)
        self.failures.extend(other.failures)
        self.notes.extend(other.notes)
        self.payload.extend(other.payload)
        if other.exhaustive is not None:
            self.exhaustive = other.exhaustive if self.exhaustive is None else (self.exhaustive and other.exhaustive)
        return self

    def fail(self, detail, case):
        self.failures.append({"detail": detail, "case": case})


def seed_value():
    try:
        return int(os.environ.get("VERIF_SEED", "1"))
    except ValueError:
        return 1


def run_hypothesis(test_body, strategy, *, seed, max_examples, stats, shrink=True, label="",
                   stateful=False):
    """Run `test_body(value)` over `strategy` under Hypothesis with a pinned
    seed.  `test_body` raises Violation on failure.  Returns nothing; a shrunk
    failure is appended to stats.failures.  Any other exception is a harness
    error and propagates."""
    import hypothesis
    from hypothesis import HealthCheck, Phase, given, settings

    phases = [Phase.explicit, Phase.generate, Phase.target]
    if shrink:
        phases.append(Phase.shrink)
    st = settings(
        max_examples=max_examples,
        database=None,
        deadline=None,
        derandomize=False,
        report_multiple_bugs=False,
        suppress_health_check=list(HealthCheck),
        phases=phases,
        print_blob=False,
    )
    last = {}
    best = {}
    budget = float(os.environ.get("VERIF_SHRINK_S", "60"))
    state = {"deadline": None}

    class _StopShrinking(BaseException):
        pass

    def wrapped(value):
        # bounded shrinking: once the budget after the first failure is used up the run is cut short
        # and the smallest failing case seen so far is reported
        if state["deadline"] is not None and time.time() > state["deadline"]:
            raise _StopShrinking()
        try:
            test_body(value)
        except Violation as v:
            last["v"] = v
            try:
                size = len(jdump(v.case))
            except Exception:
                size = 10 ** 9
            if "v" not in best or size <= best["size"]:
                best["v"], best["size"] = v, size
            if state["deadline"] is None:
                state["deadline"] = time.time() + budget
            raise

    test = hypothesis.seed(seed)(st(given(strategy)(wrapped)))
    try:
        test()
    except _StopShrinking:
        v = best["v"]
        stats.fail(v.detail, v.case)
        stats.notes.append("shrinking stopped after %.0f s (VERIF_SHRINK_S); the reported case may not be minimal" % budget)
    except Violation:
        v = last["v"]
        stats.fail(v.detail, v.case)
    except hypothesis.errors.Flaky as e:  # pragma: no cover
        v = last.get("v")
        if v is not None:
            stats.fail("(flaky under shrinking) " + v.detail, v.case)
        else:
            raise HarnessError("hypothesis reported flakiness: %r" % (e,))


def _shard_entry(args):
    modname, fn, kwargs = args
    import importlib

    mod = importlib.import_module(modname)
    t0 = time.time()
    try:
        st = getattr(mod, fn)(**kwargs)
    except Violation as v:  # a Violation escaping a campaign is still a failure
        st = Stats()
        st.fail(v.detail, v.case)
    except Exception:
        st = Stats()
        st.notes.append("HARNESS-ERROR in shard %r: %s" % (kwargs, traceback.format_exc()))
    st.notes.append("shard %s(%s) %.1fs" % (fn, {k: v for k, v in kwargs.items() if k in ("seed", "n", "part")}, time.time() - t0))
    return st


def run_shards(modname, tasks, procs=None):
    """Run `modname.fn(**kw)` for each (fn, kw) in tasks in a process pool and
    merge the Stats."""
    import multiprocessing as mp

    total = Stats()
    tasks = [(modname, fn, kw) for fn, kw in tasks]
    if not tasks:
        return total
    procs = procs or min(len(tasks), os.cpu_count() or 1, 16)
    if procs <= 1 or len(tasks) == 1:
        for t in tasks:
            total.merge(_shard_entry(t))
        return total
    ctx = mp.get_context("fork")
    with ctx.Pool(procs) as pool:
        for st in pool.imap_unordered(_shard_entry, tasks):
            total.merge(st)
    return total


def eprint(*a):
    print(*a, file=sys.stderr, flush=True)
