"""Differential execution: Color BASIC reference on the AST vs BASIC09 reference
on the tool's translation."""
from vf import sem, tool
from vf.b09 import interp as b09i
from vf.b09 import parse as b09p
from vf.cb import interp as cbi
from vf.cb import render
from vf.core import Violation


class Trivial(Exception):
    """Case is outside the domain of the property (counted, not compared)."""

    def __init__(self, why):
        super().__init__(why)
        self.why = why


def ev_equal(a, b):
    if type(a) != type(b):
        if isinstance(a, (int, float)) or isinstance(b, (int, float)) or hasattr(a, "denominator") or hasattr(b, "denominator"):
            try:
                return sem.close(a, b)
            except Exception:
                return False
        return False
    if isinstance(a, (tuple, list)):
        return len(a) == len(b) and all(ev_equal(x, y) for x, y in zip(a, b))
    if isinstance(a, dict):
        return a.keys() == b.keys() and all(ev_equal(a[k], b[k]) for k in a)
    if isinstance(a, str):
        return a == b
    if a is None or isinstance(a, bool):
        return a == b
    return sem.close(a, b)


def show_event(e):
    if isinstance(e, tuple):
        return "(" + ", ".join(show_event(x) for x in e) + ")"
    if isinstance(e, str):
        return repr(sem.show(e))
    if hasattr(e, "denominator"):
        return str(float(e)) if e.denominator != 1 else str(int(e))
    return repr(e)


def first_event_diff(ea, eb):
    n = min(len(ea), len(eb))
    for i in range(n):
        if not ev_equal(ea[i], eb[i]):
            return i
    return n if len(ea) != len(eb) else -1


def run_source(prog, script=None, str_limit=255, step_limit=20000):
    """CB reference run; raises Trivial when the program leaves the domain."""
    try:
        return cbi.run_cb(prog, script=script, str_limit=str_limit, step_limit=step_limit)
    except sem.DomainError as e:
        raise Trivial("cb_domain: " + str(e))
    except sem.FormatDependent as e:
        raise Trivial("format_dependent: " + str(e))
    except sem.StepLimit:
        raise Trivial("cb_step_limit")


def translate(prog, case, opts, paren_unary=False, layout=None, source_override=None):
    src = source_override if source_override is not None else render.render(prog, layout=layout, paren_unary=paren_unary)
    status, out = tool.try_convert(src, **opts)
    if status == "refused":
        if case.get("may_refuse"):
            raise Trivial("refused: " + out)
        # the generators of the differential checks write only programs of the supported fragment (measured: no refusal in 5 000 programs on the
        # unchanged tree); the properties promise a translation for each of them, so a refusal is a failure of the property, not a skipped case
        raise Violation("the tool refuses a program of the supported fragment (%s) instead of translating it" % out, dict(case, _source=src))
    if status == "internal":
        raise Trivial("internal_error: " + out)  # C15's business
    return src, out


def run_translation(text, case, script=None, step_limit=60000, strict_bool=True):
    """B09 reference run of emitted text; converts 'not executable' into a Violation."""
    try:
        return b09i.run_b09(text, script=script, step_limit=step_limit, strict_bool=strict_bool)
    except b09p.B09SyntaxError as e:
        raise Violation("emitted text is not well-formed BASIC09: %s" % e, case)
    except b09i.B09Error as e:
        raise Violation("emitted program cannot run as BASIC09: %s" % e, case)
    except sem.StepLimit:
        raise Violation("translated program does not stop although the source stops (step budget exceeded)", case)
    except sem.FormatDependent as e:
        raise Trivial("format_dependent(b09): " + str(e))
    except sem.DomainError as e:
        raise Violation("translated program fails at run time where the source does not: %s" % e, case)


HOUSEKEEPING = {"_ecb_start", "_ecb_init_hbuff", "_ecb_input_prefix", "_ecb_input_suffix"}


def normalise_b09_events(events):
    out = []
    for e in events:
        if e[0] == "run":
            if e[1] in HOUSEKEEPING:
                continue
            if e[1] == "ecb_at" and len(e[2]) == 1:
                out.append(("at", e[2][0]))
                continue
        if e[0] == "onerror":
            continue
        out.append(e)
    return out


def compare(cb, b9, case, what="observable trace", check_end=True):
    b9.events = normalise_b09_events(b9.events)
    i = first_event_diff(cb.events, b9.events)
    if i >= 0:
        ea = show_event(cb.events[i]) if i < len(cb.events) else "<nothing more>"
        eb = show_event(b9.events[i]) if i < len(b9.events) else "<nothing more>"
        raise Violation("%s differs at event %d: Color BASIC %s, translation %s" % (what, i, ea, eb), case)
    if check_end:
        ca = cb.ended or "fell_off_end"
        cbb = b9.ended or "fell_off_end"
        if ca != cbb:
            raise Violation("the source ends by %s, the translation by %s" % (ca, cbb), case)
