"""Entry point:  python -m vf.runner <ID> <quick|thorough> [--replay FILE]

Exit codes: 0 property held on everything explored (KNOWN-FINDING lines for
open findings that still reproduce), 1 VIOLATION, 2 harness error.
"""
import importlib
import json
import os
import sys
import time
import traceback

from vf import core
from vf.core import HarnessError, Stats, Violation, digest, jdump, jload_bytes

ROOT = core.VERIF_ROOT


def load_findings(pid):
    path = os.path.join(ROOT, "known_findings.json")
    if not os.path.exists(path):
        return []
    with open(path) as f:
        data = json.load(f)
    out = []
    for fnd in data.get("findings", []):
        if pid in fnd.get("property", []):
            out.append(fnd)
    return out


def write_replay(pid, failure):
    d = os.path.join(ROOT, "replays", pid)
    os.makedirs(d, exist_ok=True)
    body = {"property": pid, "case": failure["case"], "detail": failure["detail"]}
    text = jdump(body)
    name = "fail-" + digest(jdump(failure["case"])) + ".json"
    path = os.path.join(d, name)
    with open(path, "w") as f:
        f.write(text + "\n")
    return os.path.relpath(path, ROOT)


def write_evidence(pid, tier, seed, mod, stats, wall, violations, extra=None):
    cov = {
        "evaluations": int(stats.evaluations),
        "distinct_nontrivial": len(stats.nontrivial),
        "rule": getattr(mod, "RULE", ""),
        "samples": stats.samples[: Stats.MAX_SAMPLES] or ["(no case executed)"],
        "classes": dict(sorted(stats.classes.items())),
        "excluded": dict(sorted(stats.excluded.items())),
        "known_findings_hit": dict(sorted(stats.known.items())),
        "inconclusive": dict(sorted(stats.inconclusive.items())),
        "notes": stats.notes[:60],
    }
    if getattr(mod, "ALL_EXHAUSTIVE", False) and stats.exhaustive is not None:
        # only checks whose whole plan is an enumeration of a finite space claim exhaustiveness;
        # the others describe their enumerated part in "exhaustive_part"
        cov["exhaustive"] = bool(stats.exhaustive)
    if extra:
        cov.update(extra)
    ev = {
        "property_id": pid,
        "tier": tier,
        "seed": int(seed),
        "level": "exploration",
        "coverage": cov,
        "assumptions": list(getattr(mod, "ASSUMPTIONS", [])),
        "wall_s": round(wall, 2),
        "violations": int(violations),
    }
    d = os.environ.get("VERIF_EVIDENCE_DIR") or os.path.join(ROOT, "evidence")  # the override is a developer aid for runs against scratch worktrees
    os.makedirs(d, exist_ok=True)
    tmp = os.path.join(d, pid + ".json.tmp")
    with open(tmp, "w") as f:
        f.write(json.dumps(ev, indent=1, sort_keys=True, default=core._jdefault) + "\n")
    os.replace(tmp, os.path.join(d, pid + ".json"))


def run_case(mod, case):
    """-> (status, detail): status in ok / known:<id> / violation."""
    try:
        r = mod.check_case(case)
    except Violation as v:
        return "violation", v.detail
    if isinstance(r, str) and r:
        return "known:" + r, ""
    return "ok", ""


def main(argv):
    if len(argv) < 2:
        print("usage: check <ID> <quick|thorough> | check <ID> --replay FILE", file=sys.stderr)
        return 2
    pid = argv[0]
    tier = None
    replay = None
    rest = argv[1:]
    i = 0
    while i < len(rest):
        if rest[i] == "--replay":
            replay = rest[i + 1]
            i += 2
        elif rest[i] in ("quick", "thorough"):
            tier = rest[i]
            i += 1
        else:
            print("unknown argument %r" % rest[i], file=sys.stderr)
            return 2
    tier = tier or os.environ.get("VERIF_TIER") or "quick"
    if tier not in ("quick", "thorough"):
        tier = "quick"
    seed = core.seed_value()
    mod = importlib.import_module("vf.props." + pid.lower())

    if replay is not None:
        with open(replay) as f:
            body = jload_bytes(json.load(f))
        case = body["case"] if isinstance(body, dict) and "case" in body else body
        status, detail = run_case(mod, case)
        if status == "violation":
            print("replay: property fails: " + detail)
            print("VIOLATION property=%s replay=%s" % (pid, replay))
            return 1
        print("replay: %s" % status)
        return 0

    t0 = time.time()
    stats = Stats()
    violations = 0
    switches = set()
    known_lines = []

    # 1. witnesses of recorded findings, through the same oracle
    for fnd in load_findings(pid):
        wits = fnd.get("witnesses", {}).get(pid, [])
        wits = jload_bytes(wits)
        status = fnd.get("status", "open")
        still = 0
        for w in wits:
            st, detail = run_case(mod, w)
            stats.evaluations += 1
            failing = st != "ok"
            if status == "open":
                if failing:
                    still += 1
            else:  # fixed: plain regression case
                if failing:
                    violations += 1
                    path = write_replay(pid, {"case": w, "detail": "fixed finding %s returned: %s" % (fnd["id"], detail)})
                    print("VIOLATION property=%s replay=%s" % (pid, path))
        if status == "open":
            if still or not wits:
                if fnd.get("switch"):
                    switches.add(fnd["switch"])
                if still:
                    known_lines.append("KNOWN-FINDING: property=%s %s: %s" % (pid, fnd["id"], fnd["what"]))
            else:
                print("INFO: finding %s no longer reproduces on this tree; its excluded shapes are searched again" % fnd["id"])

    # switches of open findings that belong to *other* properties stay on: their defects are replayed and
    # reported by the check of their own property and would only get in the way of this property's search
    own_ids = {f["id"] for f in load_findings(pid)}
    try:
        with open(os.path.join(ROOT, "known_findings.json")) as f:
            for fnd in json.load(f).get("findings", []):
                if fnd.get("status", "open") == "open" and fnd.get("switch") and fnd["id"] not in own_ids:
                    switches.add(fnd["switch"])
    except OSError:
        pass

    for line in known_lines:
        print(line)

    # 2. committed regression corpus
    rdir = os.path.join(ROOT, "replays", pid)
    if os.path.isdir(rdir):
        for name in sorted(os.listdir(rdir)):
            if not name.startswith("reg-") or not name.endswith(".json"):
                continue
            with open(os.path.join(rdir, name)) as f:
                body = jload_bytes(json.load(f))
            st, detail = run_case(mod, body["case"])
            stats.evaluations += 1
            if st == "violation":
                violations += 1
                print("regression case %s fails: %s" % (name, detail))
                print("VIOLATION property=%s replay=%s" % (pid, os.path.join("replays", pid, name)))

    # 3. generated search
    plan = mod.plan(tier, seed, frozenset(switches))
    tasks = [(fn, kw) for fn, kwargs_list in plan for kw in kwargs_list]
    stats.merge(core.run_shards(mod.__name__, tasks))
    if hasattr(mod, "finalize"):
        mod.finalize(stats)
    harness_errors = [n for n in stats.notes if n.startswith("HARNESS-ERROR")]
    seen = set()
    for fl in stats.failures:
        key = digest(jdump(fl["case"]))
        if key in seen:
            continue
        seen.add(key)
        violations += 1
        path = write_replay(pid, fl)
        print("property fails: " + str(fl["detail"])[:2000])
        print("VIOLATION property=%s replay=%s" % (pid, path))

    extra = {"open_finding_switches": sorted(switches)}
    if hasattr(mod, "evidence_extra"):
        extra.update(mod.evidence_extra(stats))
    write_evidence(pid, tier, seed, mod, stats, time.time() - t0, violations, extra)
    print(
        "%s %s seed=%d: %d cases, %d distinct non-trivial, %d violation(s), %.1fs"
        % (pid, tier, seed, stats.evaluations, len(stats.nontrivial), violations, time.time() - t0)
    )
    if harness_errors:
        for n in harness_errors:
            print(n, file=sys.stderr)
        return 2
    return 1 if violations else 0


if __name__ == "__main__":
    try:
        rc = main(sys.argv[1:])
    except (HarnessError, Exception):
        traceback.print_exc()
        print("HARNESS ERROR (not a verdict about the property)", file=sys.stderr)
        rc = 2
    sys.stdout.flush()
    sys.exit(rc)
