"""Value domain shared by the two reference interpreters (DESIGN.md 3.1-3.4).

Numbers are exact rationals for + - * / and integer powers, floats
otherwise.  "The text of number x" is an opaque token embedded in strings
(number formatting is abstract: the README documents that it differs)."""
import math
from fractions import Fraction

TOK_OPEN = "\ue000"
TOK_CLOSE = "\ue001"


class DomainError(Exception):
    """The source program leaves the domain (CB itself would stop with an error)."""


class FormatDependent(Exception):
    """The result depends on the concrete rendering of a number."""


class StepLimit(Exception):
    pass


def num(x):
    if isinstance(x, bool):
        return Fraction(-1 if x else 0)
    if isinstance(x, Fraction):
        return x
    if isinstance(x, int):
        return Fraction(x)
    if isinstance(x, float):
        if math.isnan(x) or math.isinf(x):
            raise DomainError("overflow")
        if x == int(x) and abs(x) < 1e15:
            return Fraction(int(x))
        return x
    raise TypeError(x)


def lit(x):
    """Exact value of a literal given as Python float / int (decimal text semantics)."""
    if isinstance(x, int):
        return Fraction(x)
    return Fraction(repr(float(x))) if math.isfinite(x) else x


def is_integer(x):
    if isinstance(x, Fraction):
        return x.denominator == 1
    return float(x) == int(x)


def as_float(x):
    return float(x)


def close(a, b, rel=1e-9):
    if isinstance(a, str) or isinstance(b, str):
        return False
    fa, fb = float(a), float(b)
    if fa == fb:
        return True
    return abs(fa - fb) <= rel * max(abs(fa), abs(fb), 1e-30) or abs(fa - fb) < 1e-12


def arith(op, a, b):
    try:
        if op == "+":
            r = a + b
        elif op == "-":
            r = a - b
        elif op == "*":
            r = a * b
        elif op == "/":
            if b == 0:
                raise DomainError("division by zero")
            r = a / b if isinstance(a, Fraction) and isinstance(b, Fraction) else float(a) / float(b)
        elif op == "^":
            if isinstance(b, Fraction) and b.denominator == 1 and isinstance(a, Fraction) and abs(b) <= 12:
                if a == 0 and b < 0:
                    raise DomainError("0 to a negative power")
                r = a ** int(b)
            else:
                fa, fb = float(a), float(b)
                if fa < 0 and not is_integer(b):
                    raise DomainError("negative base, fractional exponent")
                if fa == 0 and fb < 0:
                    raise DomainError("0 to a negative power")
                r = fa ** fb
        else:
            raise ValueError(op)
    except OverflowError:
        raise DomainError("overflow")
    if isinstance(r, float):
        if math.isnan(r) or math.isinf(r) or abs(r) > 1e30:
            raise DomainError("overflow")
        return r
    if abs(r) > 10 ** 30:
        raise DomainError("overflow")
    if r.denominator > 10 ** 40:
        return float(r)
    return r


def int16(x, what="operand"):
    """Operand of AND/OR/NOT: an integer in -32768..32767 (CB gives ?FC ERROR otherwise)."""
    if not is_integer(x):
        raise DomainError("%s of a logical operator is not an integer" % what)
    v = int(x)
    if not -32768 <= v <= 32767:
        raise DomainError("%s of a logical operator outside 16 bits" % what)
    return v


def _wrap16(v):
    v &= 0xFFFF
    return v - 0x10000 if v & 0x8000 else v


def logic(op, a, b=None):
    if op == "NOT":
        return Fraction(_wrap16(~int16(a)))
    x, y = int16(a), int16(b)
    if op == "AND":
        return Fraction(_wrap16(x & y))
    if op == "OR":
        return Fraction(_wrap16(x | y))
    if op == "XOR":
        return Fraction(_wrap16(x ^ y))
    raise ValueError(op)


def compare(op, a, b):
    if isinstance(a, str) != isinstance(b, str):
        raise DomainError("type mismatch in comparison")
    if isinstance(a, str):
        if TOK_OPEN in a or TOK_OPEN in b:
            raise FormatDependent("comparison of a string containing a formatted number")
    else:
        if close(a, b) and a != b:
            # values that differ only by rounding noise: the outcome is not robust
            raise DomainError("comparison of nearly equal reals")
    if op == "=":
        return a == b
    if op == "<>":
        return a != b
    if op == "<":
        return a < b
    if op == ">":
        return a > b
    if op in ("<=", "=<"):
        return a <= b
    if op in (">=", "=>"):
        return a >= b
    raise ValueError(op)


def mathfn(name, x):
    f = float(x)
    try:
        if name == "ABS":
            return abs(x)
        if name == "SGN":
            return Fraction((x > 0) - (x < 0))
        if name == "INT":  # floor
            return Fraction(math.floor(x))
        if name == "TRUNC":  # toward zero
            return Fraction(math.trunc(x))
        if name == "ROUND":  # nearest, half away from zero
            return Fraction(int(math.floor(abs(f) + 0.5)) * (1 if f >= 0 else -1))
        if name == "SQR":
            if f < 0:
                raise DomainError("SQR of a negative number")
            r = math.sqrt(f)
            return Fraction(int(r)) if r == int(r) and int(r) ** 2 == x else r
        if name == "SIN":
            return math.sin(f)
        if name == "COS":
            return math.cos(f)
        if name == "TAN":
            return math.tan(f)
        if name == "ATN":
            return math.atan(f)
        if name == "EXP":
            if f > 60:
                raise DomainError("overflow")
            return math.exp(f)
        if name == "LOG":
            if f <= 0:
                raise DomainError("LOG of a non-positive number")
            return math.log(f)
    except (OverflowError, ValueError):
        raise DomainError("math domain")
    raise ValueError(name)


# ------------------------------------------------------------------ strings


def numtok(x):
    """The text of number x, as an opaque token."""
    f = float(x)
    if f == 0:
        f = 0.0
    return TOK_OPEN + ("%.9g" % f) + TOK_CLOSE


def has_tok(s):
    return TOK_OPEN in s


def plain(s, what):
    if TOK_OPEN in s:
        raise FormatDependent(what + " of a string containing a formatted number")
    return s


def show(s):
    return s.replace(TOK_OPEN, "⟦").replace(TOK_CLOSE, "⟧")


NUMERAL = None


def val_of(s):
    """VAL of a well-formed numeral; 0 for a string that does not start with one.
    Anything in between (partial numerals such as '12AB') is an uncertain zone."""
    import re

    s = plain(s, "VAL")
    t = s.strip(" ")
    if re.fullmatch(r"[+-]?(\d+\.?\d*|\.\d+)([Ee][+-]?\d+)?", t):
        return Fraction(t.upper().replace("E", "e")) if "e" not in t.lower() else num(float(t))
    if t == "" or not re.match(r"[+\-.\d&]", t):
        return Fraction(0)
    raise FormatDependent("VAL of a partial numeral")  # uncertain zone U-4


def hex_of(x):
    if not is_integer(x):
        x = Fraction(math.trunc(x))
    v = int(x)
    if not 0 <= v <= 65535:
        raise DomainError("HEX$ argument out of range")
    return "%X" % v
