#!/usr/bin/env python3
"""developer tool: which lines of the translator do the generators of the checks execute?
usage: PYTHONPATH=/repo:/verif:/verif/.deps /venv/bin/python tools_line_coverage.py [N]   (needs the coverage module of /venv; not used by any check)"""
import sys, os, glob
import coverage
from hypothesis import given, settings, seed, HealthCheck

N = int(sys.argv[1]) if len(sys.argv) > 1 else 200
cov = coverage.Coverage(include=["/repo/coco/b09/*"], data_file=None)
cov.start()
from vf import tool
from vf.cb import render
from vf.gen import full
from vf.props import c01, c02, c03, c04, c05, c06, c07, c08, c09, c10, c11, c13, c14, c15

sw = frozenset()
def drive(name, strat, fn):
    @seed(11)
    @settings(max_examples=N, database=None, deadline=None, suppress_health_check=list(HealthCheck))
    @given(strat)
    def t(c):
        c = dict(c); c.pop("_meta", None)
        try:
            fn(c)
        except Exception:
            pass
    t()
    print("drove", name, file=sys.stderr)

drive("c01", c01.cases(sw), c01.check_case)
drive("c02", c02.cases(sw), c02.check_case)
drive("c03", c03.cases(sw), c03.check_case)
drive("c04", c04.cases(sw), c04.check_case)
drive("c05", c05.cases(sw), c05.check_case)
drive("c06", c06.programs(), c06.check_case)
drive("c07", c07.cases(sw), c07.check_case)
drive("c08", c08.cases(sw), c08.check_case)
drive("c10", c10.cases(sw), c10.check_case)
drive("c11", c11.cases(sw), c11.check_case)
drive("c11cli", c11.cli_cases(sw), c11.check_case)
drive("c13", c13.cases(sw), c13.check_case)
drive("c14", c14.cases(sw), c14.check_case)
for nm in ("A", "NM", "Q7"):
    for k in c09.KINDS:
        try:
            c09.check_case({"name": nm, "kind": k})
        except Exception:
            pass
cov.stop()
for f in sorted(glob.glob("/repo/coco/b09/*.py")):
    try:
        _, stmts, _, missing, _ = cov.analysis2(f)
    except Exception as e:
        continue
    if not stmts:
        continue
    print("%-28s %4d statements, %4d never executed" % (os.path.basename(f), len(stmts), len(missing)))
    src = open(f).read().split("\n")
    for ln in missing:
        print("     %5d  %s" % (ln, src[ln - 1][:110]))
